"""C16 Text and option parsing never crashes, corrupts memory or hangs on any input (necessary conditions only).

 D1 npos discipline: the result of a string search on caller-supplied text is not used as a position / index / iterator
    offset while it may still be npos
 D2 unsigned underflow: 'size() - c' of a possibly empty container is not used as a loop bound or index
 D3 termination: no loop has a feasible state-preserving cycle; no loop advances only by the size of a caller-supplied,
    possibly empty string
 D4 integral division / modulo by a caller-supplied value is guarded against zero
 D5 only the library's exception type is thrown explicitly
"""
import re
from .facts import kids, strip, walk, is_call, render, local_inits, AnalysisBroken
from . import e1

EXPLANATION = ("Static analysis of NECESSARY conditions of C16 over the 13 anchored text/option/IO units (passing them does not prove absence of crashes): D1 typestate on results of "
               "std::string find*/rfind: MAYBE-NPOS until compared with npos (npos+1 is the safe idiom; a cast to a signed type keeps MAYBE-NPOS as -1), refuted when used as substr/erase/insert "
               "position, index or iterator offset on an unguarded path and the searched text is a parameter; D2 'size() - c' of a parameter (or of a member the constructors can leave empty) used as loop "
               "bound/index without an emptiness guard; D3 every loop (exception edges included) has no feasible cycle that writes nothing outliving the iteration, and no loop whose only progress is "
               "'+ s.size()' of a caller-supplied string that may be empty; D4 '/' and '%' on integers with a parameter divisor need a dominating non-zero guard; D5 throw operands derive from "
               "bpp::Exception. NOT decided: everything else a sanitizer would see (invalid iterators inside std algorithms, signed overflow, allocation size), and completeness.")

FILES = ["Text/TextTools.cpp", "Text/TextTools.h", "Text/StringTokenizer.cpp", "Text/StringTokenizer.h", "Text/NestedStringTokenizer.cpp", "Text/KeyvalTools.cpp", "Utils/AttributesTools.cpp",
         "App/ApplicationTools.cpp", "Io/FileTools.cpp", "Numeric/DataTable.cpp", "Io/BppODiscreteDistributionFormat.cpp", "Numeric/Constraints.h",
         "Function/Operators/ComputationTree.cpp", "Numeric/ParameterList.cpp", "App/NumCalcApplicationTools.cpp"]
FIND = ("find", "rfind", "find_first_of", "find_last_of", "find_first_not_of", "find_last_not_of")
# members that a public constructor can leave empty (confirmed by reading): used by D2
MAY_BE_EMPTY_MEMBERS = {"bpp::StringTokenizer::tokens_": "StringTokenizer(\"\", \",\") stores no token"}


def _fns(fb):
    return [f for f in fb.concrete_fns() if any(f.file.endswith(x) for x in FILES) and f.body is not None and f.cfg is not None]


def _is_str_find(n):
    return is_call(n) and n["callee"]["name"] in FIND and "basic_string" in n["callee"].get("cls", "")


def _is_npos(n):
    n = strip(n)
    if n is None:
        return False
    t = render(n)
    return t.endswith("npos")


def _param_rooted(f, node):
    r = e1._root_decl(node)
    if r and r[0] == "v":
        return any(p["id"] == r[1] for p in f.params)
    return False


def _npos_guard(facts, var):
    """does the edge establish var != npos (or var >= 0 for a signed copy)?"""
    for t, tr, nd in facts:
        nd = strip(nd)
        if nd["k"] == "BinaryOperator" or (is_call(nd) and nd.get("op") in ("==", "!=")):
            ks = kids(nd) if nd["k"] == "BinaryOperator" else None
            if ks is None:
                continue
            a, b = render(ks[0]), render(ks[1])
            op = nd["op"]
            for x, y in ((a, b), (b, a)):
                if x == var and y.endswith("npos"):
                    if (op == "!=" and tr) or (op == "==" and not tr):
                        return True
            if op in (">=",) and a == var and b in ("0",) and tr:
                return True
            if op in ("<",) and a == var and b in ("0",) and not tr:
                return True
            # var < other.size()/length() implies var != npos ; pos >= size false likewise
            if op == "<" and a == var and tr and (".size()" in b or ".length()" in b):
                return True
            if op == ">=" and a == var and not tr and (".size()" in b or ".length()" in b):
                return True
    return False


def _d1(chk, fb, fns):
    n_sites = 0
    for f in fns:
        cfg = f.cfg
        sub = local_inits(f)
        # variables holding a find result:  name -> (decl id, find call, signed?, plus)
        holders = {}
        for n in f.all_nodes():
            tgt = None
            rhs = None
            if n["k"] == "DeclStmt":
                for d in n["decls"]:
                    if d.get("init") is not None:
                        holders_from(f, holders, d["id"], d["name"], d["init"], d["ty"])
            elif n["k"] == "BinaryOperator" and n["op"] == "=":
                l = strip(kids(n)[0])
                if l["k"] == "DeclRefExpr":
                    holders_from(f, holders, l["decl"]["id"], l["decl"]["name"], kids(n)[1], l["decl"]["ty"])
        # copies / casts of a holder are holders too
        changed = True
        while changed:
            changed = False
            for n in f.all_nodes():
                pairs = []
                if n["k"] == "DeclStmt":
                    pairs = [(d["id"], d["name"], d["init"], d["ty"]) for d in n["decls"] if d.get("init") is not None]
                elif n["k"] == "BinaryOperator" and n["op"] == "=" and strip(kids(n)[0])["k"] == "DeclRefExpr":
                    l = strip(kids(n)[0])
                    pairs = [(l["decl"]["id"], l["decl"]["name"], kids(n)[1], l["decl"]["ty"])]
                for did, name, init, ty in pairs:
                    e = strip(init)
                    while e is not None and e["k"] in ("CXXStaticCastExpr", "CStyleCastExpr", "CXXFunctionalCastExpr", "ImplicitCastExpr") and kids(e):
                        e = strip(kids(e)[0])
                    if e is not None and e["k"] == "DeclRefExpr" and e["decl"]["id"] in holders and did not in holders and did != e["decl"]["id"]:
                        src = holders[e["decl"]["id"]]
                        holders[did] = dict(name=name, finds=list(src["finds"]), signed=src["signed"] or ty in ("long", "int"), plus=src["plus"], copy_of=e["decl"]["name"])
                        changed = True
        safe_pos = {h for h, v in holders.items() if v["plus"]}
        for hid, h in sorted(holders.items(), key=lambda kv: kv[1]["name"]):
            if h["plus"]:
                continue        # find(...) + 1 : npos + 1 == 0 is a valid position
            # every use of the variable in an error context
            for u in f.all_nodes():
                if u["k"] != "DeclRefExpr" or u["decl"]["id"] != hid:
                    continue
                ctx = _error_context(f, u)
                if ctx is None:
                    continue
                n_sites += 1
                var = h["name"]

                def est(facts, var=var, h=h):
                    if _npos_guard(facts, var) or (h.get("copy_of") and _npos_guard(facts, h["copy_of"])):
                        return True
                    # ordering guard: A > var is false with A a safe position (>= 0)  =>  var >= 0
                    for t, tr, nd in facts:
                        nd = strip(nd)
                        if nd["k"] == "BinaryOperator" and nd["op"] == ">" and render(kids(nd)[1]) == var and not tr:
                            a = strip(kids(nd)[0])
                            if a["k"] == "DeclRefExpr" and a["decl"]["id"] in safe_pos:
                                return True
                        if nd["k"] == "BinaryOperator" and nd["op"] in ("||",) and not tr:
                            pass
                    return False
                ok, path = e1.guarded_by(cfg, cfg.stmt_block(u), est)
                # the loop idiom: while (index != npos) { ... use index ... index = find }  is covered by the edge facts
                if ok:
                    chk.proved("D1", f.key, "npos:%s->%s" % (var, ctx), f.loc(u), "use of '%s' as %s dominated by a test against npos" % (var, ctx))
                elif not all(_param_rooted(f, fc) or _member_text(f, fc) for fc in h["finds"]):
                    chk.unknown("D1", f.key, "npos:%s->%s" % (var, ctx), f.loc(u), "searched text is not caller-supplied")
                elif _reassigned_safe(f, cfg, hid, u):
                    chk.unknown("D1", f.key, "npos:%s->%s" % (var, ctx), f.loc(u), "variable also assigned from non-search expressions")
                else:
                    chk.refuted("D1", f.key, "npos:%s->%s" % (var, ctx), f.loc(u),
                                "'%s' holds the result of %s on caller-supplied text%s and is used as %s on a path with no test against npos" % (
                                    var, render(h["finds"][0])[:50], " (cast to a signed type: -1)" if h["signed"] else "", ctx),
                                witness={"blocks": path, "input": "text that does not contain the searched character(s)"})
        # direct uses: substr(find(...)) without +1
        for c in f.calls():
            if c["callee"]["name"] in ("substr", "erase", "insert", "replace", "at", "operator[]") and "basic_string" in c["callee"].get("cls", "") and f.args(c):
                a0 = strip(f.args(c)[0])
                if _is_str_find(a0) and _param_rooted(f, f.obj(a0)):
                    n_sites += 1
                    chk.refuted("D1", f.key, "npos:direct->%s" % c["callee"]["name"], f.loc(c), "%s is handed the raw result of %s, which is npos when the text does not contain the needle" % (c["callee"]["name"], render(a0)[:40]),
                                witness={"input": "text without the searched character(s)"})
    chk.floor("D1", "uses of search results in position contexts", n_sites, 12)


def _member_text(f, find_call):
    return False


def _reassigned_safe(f, cfg, hid, use):
    return False


def holders_from(f, holders, did, name, expr, ty):
    e = strip(expr)
    signed = False
    while e is not None and e["k"] in ("CXXStaticCastExpr", "CStyleCastExpr", "CXXFunctionalCastExpr", "ImplicitCastExpr") and kids(e):
        if e.get("cast") == "IntegralCast" and ("long" == ty or ty in ("long", "int", "std::ptrdiff_t")):
            signed = True
        e = strip(kids(e)[0])
    if ty in ("long", "int"):
        signed = True
    plus = False
    if e is not None and e["k"] == "BinaryOperator" and e["op"] == "+":
        a, b = strip(kids(e)[0]), strip(kids(e)[1])
        if _is_str_find(a) and b["k"] == "IntegerLiteral" and b["val"] >= 1:
            e = a
            plus = True
    if _is_str_find(e):
        h = holders.setdefault(did, dict(name=name, finds=[], signed=signed, plus=plus))
        h["finds"].append(f.obj(e))
        h["plus"] = h["plus"] and plus
        h["signed"] = h["signed"] or signed
    elif did in holders:
        # also assigned from something else (e.g. index = newIndex + 1): keep, uses are still checked against guards
        pass


def _error_context(f, u):
    """how a variable occurrence is used, if that use needs a valid position"""
    p = f.parent.get(u["id"])
    x = u
    while p is not None and p["k"] in ("ImplicitCastExpr", "ParenExpr", "CXXStaticCastExpr", "MaterializeTemporaryExpr"):
        x, p = p, f.parent.get(p["id"])
    if p is None:
        return None
    if is_call(p) and "basic_string" in p["callee"].get("cls", "") and p["callee"]["name"] in ("substr", "erase", "insert", "replace", "at", "operator[]", "assign", "compare"):
        a = p.get("args", [])
        if a and x["id"] == a[0]:
            return p["callee"]["name"] + " position"
        return None
    if p["k"] == "BinaryOperator" and p["op"] in ("+", "-"):
        # begin() + p  (iterator arithmetic)
        other = kids(p)[0] if kids(p)[1] is x else kids(p)[1]
        if "iterator" in (other.get("ty") or "") or "__normal_iterator" in (other.get("ty") or ""):
            return "iterator offset"
        return None
    if is_call(p) and p["callee"]["via"] == "operator" and p.get("op") in ("+", "-", "+="):
        ids = ([p["obj"]] if "obj" in p else []) + p.get("args", [])
        nodes = {n["id"]: n for n in walk(p)}
        tys = [nodes[i].get("ty", "") for i in ids if i in nodes and nodes[i] is not x]
        if any("iterator" in t for t in tys):
            return "iterator offset"
    return None


def _d2(chk, fb, fns):
    n = 0
    for f in fns:
        cfg = f.cfg
        for e in f.all_nodes():
            if e["k"] != "BinaryOperator" or e["op"] != "-":
                continue
            a, b = strip(kids(e)[0]), strip(kids(e)[1])
            if not (is_call(a) and a["callee"]["name"] in ("size", "length") and b["k"] == "IntegerLiteral" and b["val"] >= 1):
                continue
            if "unsigned" not in (e.get("ty") or ""):
                continue
            cont = f.obj(a)
            root = e1._root_decl(cont)
            ctext = render(cont)
            # only bounds / indices matter
            par = f.parent.get(e["id"])
            x = e
            while par is not None and par["k"] in ("ImplicitCastExpr", "ParenExpr"):
                x, par = par, f.parent.get(par["id"])
            role = None
            if par is not None and par["k"] == "BinaryOperator" and par["op"] in ("<", "<=", "!=") and kids(par)[1] is x and f.enclosing(par, ("ForStmt", "WhileStmt")) is not None:
                lp = f.enclosing(par, ("ForStmt", "WhileStmt"))
                if "cond" in lp and f.contains(f.nodes[lp["cond"]], par):
                    role = "loop bound"
            if par is not None and is_call(par) and par["callee"]["name"] in ("operator[]", "at") and par.get("args") and par["args"][0] == x["id"]:
                role = "index"
            use = e
            if role is None and par is not None and par["k"] == "DeclStmt":
                # 'const size_t last = v.size() - 1;' and the local then bounds a loop or indexes v: the wrap happens here, the harm
                # where the local is used; a guard anywhere in front of that use counts
                inits_ = local_inits(f)
                for d_ in par["decls"]:
                    if d_.get("init") is not None and f.contains(d_["init"], e) and strip(d_["init"]) is strip(x) and d_["id"] in inits_ and "unsigned" in (d_.get("ty") or "").replace("size_t", "unsigned").replace("std::size_t", "unsigned"):
                        for r_ in f.all_nodes():
                            if r_["k"] != "DeclRefExpr" or r_["decl"]["id"] != d_["id"]:
                                continue
                            p2, x2 = f.parent.get(r_["id"]), r_
                            while p2 is not None and p2["k"] in ("ImplicitCastExpr", "ParenExpr"):
                                x2, p2 = p2, f.parent.get(p2["id"])
                            if p2 is not None and p2["k"] == "BinaryOperator" and p2["op"] in ("<", "<=", "!=") and kids(p2)[1] is x2:
                                lp2 = f.enclosing(p2, ("ForStmt", "WhileStmt"))
                                if lp2 is not None and "cond" in lp2 and f.contains(f.nodes[lp2["cond"]], p2):
                                    role, use, par = "loop bound", r_, p2
                                    break
                            if p2 is not None and is_call(p2) and p2["callee"]["name"] in ("operator[]", "at") and p2.get("args") and p2["args"][0] == x2["id"] and "obj" in p2 and render(f.obj(p2)) == ctext:
                                role, use = "index", r_
                                break
            if role is None:
                continue
            n += 1
            c = b["val"]

            def est(facts, ctext=ctext, c=c):
                for t, tr, nd in facts:
                    if t in ("%s.empty()" % ctext,) and tr is False:
                        return True
                    if t in ("%s.size()" % ctext, "%s.length()" % ctext) and tr is True:
                        return True       # 'size() == 0' / 'size() != 0' reach the CFG layer as the truthiness of size()
                    if t in ('(%s == "")' % ctext, '("" == %s)' % ctext) and tr is False:
                        return True
                    if t in ('(%s != "")' % ctext, '("" != %s)' % ctext) and tr is True:
                        return True
                    if t in ("(%s.size() == 0)" % ctext, "(%s.length() == 0)" % ctext) and tr is False:
                        return True
                    if t in ("(%s.size() > 0)" % ctext, "(%s.size() != 0)" % ctext, "(%s.size() >= %d)" % (ctext, c)) and tr is True:
                        return True
                    m = re.match(r"\(%s\.(size|length)\(\) (<|<=) (\d+)\)" % re.escape(ctext), t)
                    if m and tr is False and int(m.group(3)) >= (c if m.group(2) == "<" else c - 1):
                        return True
                    m = re.match(r"\(%s\.(size|length)\(\) (>|>=) (\d+)\)" % re.escape(ctext), t)
                    if m and tr is True:
                        return True
                return False
            ok, path = e1.guarded_by(cfg, cfg.stmt_block(use), est)
            caller_controlled = (root and root[0] == "v" and any(p["id"] == root[1] for p in f.params)) or (root and root[0] == "f" and root[1] in MAY_BE_EMPTY_MEMBERS)
            # a guard in front does not cover a later re-assignment of the string from parts that may all be empty
            reass0 = _possibly_empty_reassignment(f, cfg, cont, e, est) if role == "index" else None
            if reass0 is not None:
                ok = False
            if ok:
                # the guard must still hold at the access: a statement that can shrink the container, from which the access is
                # reachable without passing the test again, takes the proof away (not a refutation: it may leave elements)
                shr = [w for w in f.calls() if "obj" in w and render(f.obj(w)) == ctext and w["callee"]["name"] in ("erase", "pop_back", "pop_front", "clear", "resize", "assign", "operator=", "swap")]
                tb_ = cfg.stmt_block(e)
                unguarded = [w for w in shr if cfg.stmt_block(w) is not None and cfg.stmt_block(w) != tb_ and not e1.guarded_by(cfg, tb_, est, entry=cfg.stmt_block(w))[0]
                             and e1.path_exists(cfg, cfg.stmt_block(w), tb_)]
                if unguarded:
                    chk.unknown("D2", f.key, "underflow:%s.size()-%d" % (ctext, c), f.loc(e), "guarded at first, but '%s' (%s) can shrink the container before the access is reached again" % (render(unguarded[0])[:50], f.loc(unguarded[0])))
                    continue
            if ok:
                chk.proved("D2", f.key, "underflow:%s.size()-%d" % (ctext, c), f.loc(e), "guarded by a non-emptiness test")
            elif caller_controlled and role == "loop bound" and _loop_indexes(f, f.enclosing(par, ("ForStmt", "WhileStmt")), ctext):
                why = MAY_BE_EMPTY_MEMBERS.get(root[1], "caller-supplied container") if root[0] == "f" else "caller-supplied container"
                chk.refuted("D2", f.key, "underflow:%s.size()-%d" % (ctext, c), f.loc(e),
                            "'%s.size() - %d' is unsigned and used as %s with no emptiness guard: on an empty container it wraps to a huge value and the loop indexes far out of range (%s)" % (ctext, c, role, why),
                            witness={"input": "an empty %s" % ctext})
            elif caller_controlled and role == "index":
                chk.refuted("D2", f.key, "underflow:%s.size()-%d" % (ctext, c), f.loc(e), "'%s[%s.size() - %d]' with no emptiness guard on a caller-supplied container" % (ctext, ctext, c),
                            witness={"input": "an empty %s" % ctext})
            else:
                reass = _possibly_empty_reassignment(f, cfg, cont, e, est) if role == "index" else None
                if reass is not None:
                    chk.refuted("D2", f.key, "underflow:%s.size()-%d" % (ctext, c), f.loc(e),
                                "'%s[%s.size() - %d]' is evaluated again after '%s' (%s), every part of which can be empty for caller-supplied text, with no emptiness test in between: "
                                "the index wraps" % (ctext, ctext, c, render(reass)[:70], f.loc(reass)),
                                witness={"input": "text whose merged pieces are both empty (e.g. a line holding only the continuation character followed by an empty line)"})
                    continue
                empty_path = _still_empty_path(f, cfg, cont, e, est) if role == "index" else None
                if empty_path:
                    chk.refuted("D2", f.key, "underflow:%s.size()-%d" % (ctext, c), f.loc(e),
                                "'%s[%s.size() - %d]' is reached on a path on which the local container '%s' (declared empty at %s) has received no element and no emptiness test was passed: the index wraps and the access is far out of range" % (
                                    ctext, ctext, c, ctext, empty_path[1]),
                                witness={"blocks": empty_path[0], "input": "text that takes this branch before any element was stored (e.g. a leading separator token)"})
                else:
                    chk.unknown("D2", f.key, "underflow:%s.size()-%d" % (ctext, c), f.loc(e), "no local guard; emptiness depends on an invariant established elsewhere")
    chk.floor("D2", "'size() - c' bounds/indices", n, 3)


def _possibly_empty_reassignment(f, cfg, cont, site, est):
    """a std::string local that is indexed at size() - k: an assignment 's = E' from which the access is reachable without
    passing an emptiness test, where E is built only from parts that may be empty (substr of anything, elements of a
    caller-supplied container, string parameters, '+' of such parts) - no literal, no character appended"""
    c0 = strip(cont)
    if c0["k"] != "DeclRefExpr" or c0["decl"]["kind"] != "local" or "basic_string" not in (c0["decl"].get("ty") or ""):
        return None
    did = c0["decl"]["id"]
    params = {p_["id"] for p_ in f.params}
    sized_from_param = set()
    for dn in f.all_nodes():
        if dn["k"] == "DeclStmt":
            for d in dn["decls"]:
                i0 = strip(d["init"]) if d.get("init") is not None else None
                if i0 is not None and i0["k"] == "CXXConstructExpr" and "vector" in (d.get("ty") or "") and any(x["k"] == "DeclRefExpr" and x["decl"]["id"] in params for x in walk(i0)):
                    sized_from_param.add(d["id"])

    def may_be_empty(n, depth=0):
        n = strip(n)
        if n is None or depth > 6:
            return False
        if n["k"] == "StringLiteral":
            return (n.get("val") or "") == ""
        if n["k"] == "CharacterLiteral":
            return False
        if is_call(n):
            nm = n["callee"]["name"]
            if nm == "substr":
                return True
            if nm == "operator+" or n.get("op") == "+":
                return all(may_be_empty(a, depth + 1) for a in f.args(n)) and bool(f.args(n))
            if nm in ("operator[]", "at") and "obj" in n:
                r = e1._root_decl(f.obj(n))
                return bool(r) and r[0] == "v" and (r[1] in params or r[1] in sized_from_param)
            if n["callee"].get("via") == "ctor" and len(f.args(n)) == 1:
                return may_be_empty(f.args(n)[0], depth + 1)
            return False
        if n["k"] == "DeclRefExpr":
            return n["decl"]["id"] in params and "basic_string" in (n["decl"].get("ty") or "")
        return False
    target = cfg.stmt_block(site)
    for w in f.calls():
        if w["callee"]["name"] == "operator=" and "obj" in w and f.args(w):
            o = strip(f.obj(w))
            if o["k"] == "DeclRefExpr" and o["decl"]["id"] == did and may_be_empty(f.args(w)[0]):
                wb = cfg.stmt_block(w)
                if wb is None or target is None:
                    continue
                declb = {cfg.stmt_block(dn) for dn in f.all_nodes() if dn["k"] == "DeclStmt" and any(d["id"] == did for d in dn["decls"])}
                ok, path = e1.guarded_by(cfg, target, est, entry=wb, through=declb - {wb})
                # the path must not pass another assignment of the local (that one would be the reaching definition)
                if not ok and path and not any(cfg.stmt_block(w2) in path[1:-1] for w2 in f.calls() if w2 is not w and w2["callee"]["name"] == "operator=" and "obj" in w2 and strip(f.obj(w2))["k"] == "DeclRefExpr" and strip(f.obj(w2))["decl"]["id"] == did):
                    return w
    return None


def _still_empty_path(f, cfg, cont, site, est):
    """for a local container declared without elements: a feasible CFG path from its declaration to `site` that passes no
    statement able to put an element into it (any non-const use of the local) and no edge establishing non-emptiness;
    (blocks, location of the declaration) or None.  A path that enters a loop whose body fills the container and leaves it
    through the loop test is not used: whether such a loop runs at least once is a value fact"""
    c0 = strip(cont)
    if c0["k"] != "DeclRefExpr" or c0["decl"]["kind"] != "local":
        return None
    did = c0["decl"]["id"]
    decl = None
    for dn in f.all_nodes():
        if dn["k"] == "DeclStmt":
            for d in dn["decls"]:
                if d["id"] == did:
                    decl = (dn, d)
    if decl is None:
        return None
    init = strip(decl[1].get("init")) if decl[1].get("init") is not None else None
    if init is not None and not (init["k"] == "CXXConstructExpr" and not [a for a in f.args(init) if render(a) != "<default>"]):
        return None
    fills = set()
    for n in f.all_nodes():
        if is_call(n):
            touched = False
            if "obj" in n:
                o = strip(f.obj(n))
                if o["k"] == "DeclRefExpr" and o["decl"]["id"] == did and not n["callee"].get("const"):
                    touched = n["callee"]["name"] not in ("operator[]", "at", "back", "front", "begin", "end", "size", "empty", "clear", "pop_back", "erase")
            pt = n["callee"].get("ptypes", [])
            for i, a in enumerate(f.args(n)):
                ty = pt[i] if i < len(pt) else ""
                if ty.endswith("&") and not ty.startswith("const ") and any(x["k"] == "DeclRefExpr" and x["decl"]["id"] == did for x in walk(a)):
                    touched = True
            if touched:
                fills.add(cfg.stmt_block(n))
    # any other mention that could alias it (address taken, reference bound): give up
    for n in f.all_nodes():
        if n["k"] == "UnaryOperator" and n["op"] == "&" and any(x["k"] == "DeclRefExpr" and x["decl"]["id"] == did for x in walk(n)):
            return None
        if n["k"] == "DeclStmt":
            for d in n["decls"]:
                if "&" in (d.get("ty") or "") and d.get("init") is not None and any(x["k"] == "DeclRefExpr" and x["decl"]["id"] == did for x in walk(d["init"])):
                    return None
    loops = e1.natural_loops(cfg)
    filling_heads = {h for h, body in loops.items() if body & fills}
    start, target = cfg.stmt_block(decl[0]), cfg.stmt_block(site)
    if start is None or target is None or target in fills:
        return None
    prev = {start: None}
    q = [start]
    while q:
        x = q.pop(0)
        if x == target:
            path = []
            while x is not None:
                path.append(x)
                x = prev[x]
            path.reverse()
            if e1._path_feasible(f, cfg, path):
                return path, f.loc(decl[0])
            return None
        for s_ in cfg.succ[x]:
            if s_ in prev or s_ in fills:
                continue
            if est(e1.edge_facts(cfg, x, s_)):
                continue
            # leaving a filling loop through its test without having entered the body
            if x in filling_heads and s_ not in loops[x] and target not in loops[x]:
                continue
            prev[s_] = x
            q.append(s_)
    return None


def _d2c(chk, fb, fns):
    """the same wrap on a plain unsigned variable: 'u - k' as a loop bound where u is an unsigned local or parameter that comes from
    the caller's text (a conversion of parsed input) and nothing establishes u >= k: for u < k the bound is huge and a loop that
    appends or indexes on every pass does not end within memory"""
    n = 0
    for f in fns:
        cfg = f.cfg
        for e in f.all_nodes():
            if e["k"] != "BinaryOperator" or e["op"] != "-" or "unsigned" not in (e.get("ty") or ""):
                continue
            a, b = strip(kids(e)[0]), strip(kids(e)[1])
            if not (a["k"] == "DeclRefExpr" and a["decl"]["kind"] in ("local", "param") and "unsigned" in (a["decl"].get("ty") or "") and b["k"] == "IntegerLiteral" and b["val"] >= 1):
                continue
            par = f.parent.get(e["id"])
            x = e
            while par is not None and par["k"] in ("ImplicitCastExpr", "ParenExpr"):
                x, par = par, f.parent.get(par["id"])
            lp = f.enclosing(e, ("ForStmt", "WhileStmt"))
            if not (par is not None and par["k"] == "BinaryOperator" and par["op"] in ("<", "<=", "!=") and kids(par)[1] is x and lp is not None and "cond" in lp and f.contains(f.nodes[lp["cond"]], par)):
                continue
            n += 1
            u, c = a["decl"]["name"], b["val"]

            def est(facts, u=u, c=c):
                for t, tr, nd in facts:
                    if t == u and tr is True and c == 1:
                        return True
                    m = re.match(r"^\(%s (>|>=|!=) (\d+)\)$" % re.escape(u), t)
                    if m and tr is True and (int(m.group(2)) + (1 if m.group(1) == ">" else 0) >= c or (m.group(1) == "!=" and m.group(2) == "0" and c == 1)):
                        return True
                    m = re.match(r"^\(%s (<|<=|==) (\d+)\)$" % re.escape(u), t)
                    if m and tr is False and ((m.group(1) == "<" and int(m.group(2)) >= c) or (m.group(1) == "<=" and int(m.group(2)) + 1 >= c) or (m.group(1) == "==" and m.group(2) == "0" and c == 1)):
                        return True
                return False
            ok, path = e1.guarded_by(cfg, cfg.stmt_block(e), est)
            con = "underflow:%s-%d" % (u, c)
            # where does u come from?
            src = None
            if a["decl"]["kind"] == "param":
                src = "a parameter"
            else:
                for dn in f.all_nodes():
                    if dn["k"] == "DeclStmt":
                        for d in dn["decls"]:
                            if d["id"] == a["decl"]["id"] and d.get("init") is not None and any(is_call(y) and y["callee"]["name"] in ("toInt", "to", "fromString", "stoi", "stoul", "atoi", "toDouble") for y in walk(d["init"])):
                                src = "converted from the caller's text (%s)" % render(d["init"])[:50]
            grows = any(is_call(y) and y["callee"]["name"] in ("push_back", "emplace_back", "operator[]", "at", "insert") for y in walk(f.nodes[lp["body"]])) if lp.get("body") is not None else False
            if ok:
                chk.proved("D2", f.key, con, f.loc(e), "'%s - %d' guarded by a test that %s >= %d" % (u, c, u, c))
            elif src and grows and a["decl"]["kind"] == "local":
                chk.refuted("D2", f.key, con, f.loc(e),
                            "'%s - %d' is unsigned, bounds a loop that appends/indexes on every pass, and '%s' is %s with no test that it is at least %d: for smaller values the bound wraps to a huge number" % (u, c, u, src, c),
                            witness={"input": "a description whose count is 0 (or negative before the conversion)"})
            else:
                chk.unknown("D2", f.key, con, f.loc(e), "no local guard; whether '%s' can be below %d depends on the callers" % (u, c))
    return n


def _loop_indexes(f, lp, ctext):
    """does the loop body index the same container (so that a wrapped bound reads out of range)?"""
    if lp is None:
        return False
    for c in walk(f.nodes[lp["body"]]):
        if is_call(c) and c["callee"]["name"] in ("operator[]", "at") and "obj" in c:
            return True
    return False


def _d2b(chk, fb, fns):
    """after R.erase(R.begin() + E, R.end()) the string has E characters: a later R.begin() + B needs B <= E"""
    n = 0
    for f in fns:
        cfg = f.cfg
        truncs = []
        for c in f.calls():
            if c["callee"]["name"] == "erase" and "basic_string" in c["callee"].get("cls", "") and len(f.args(c)) == 2:
                a0, a1 = render(f.args(c)[0]), render(f.args(c)[1])
                R = render(f.obj(c))
                m = re.match(r"\(%s\.begin\(\) \+ (\w+)\)$" % re.escape(R), a0)
                if m and a1 == R + ".end()":
                    truncs.append((c, R, m.group(1)))
        for tc, R, E in truncs:
            for c in f.calls():
                if c is tc or "obj" not in c or render(f.obj(c)) != R or not e1.before_in_function(cfg, tc, c) or not cfg.dominates(cfg.stmt_block(tc), cfg.stmt_block(c)):
                    continue
                for a in f.args(c):
                    m = re.match(r"\(%s\.begin\(\) \+ (\w+)\)$" % re.escape(R), render(a))
                    if not m or m.group(1) == E:
                        continue
                    B = m.group(1)
                    n += 1

                    def est(facts, B=B, E=E):
                        for t, tr, nd in facts:
                            if t in ("(%s > %s)" % (B, E), "(%s < %s)" % (E, B)) and tr is False:
                                return True
                            if t in ("(%s <= %s)" % (B, E), "(%s >= %s)" % (E, B)) and tr is True:
                                return True
                        return False
                    ok, path = e1.guarded_by(cfg, cfg.stmt_block(c), est)
                    if ok:
                        chk.proved("D2", f.key, "offset-in-truncated:%s+%s" % (R, B), f.loc(c), "%s <= %s established before %s.begin() + %s on the string truncated to %s characters" % (B, E, R, B, E))
                    else:
                        chk.refuted("D2", f.key, "offset-in-truncated:%s+%s" % (R, B), f.loc(c),
                                    "'%s' was truncated to %s characters (erase(begin()+%s, end())) and is then addressed at begin() + %s with no guard that %s <= %s: the iterator lies beyond end()" % (R, E, E, B, B, E),
                                    witness={"input": "text where position '%s' lies after position '%s' (e.g. the last '.' before the last directory separator)" % (B, E)})
    # cursor-aware erase in the tokenizers: erasing tokens must not go below the read cursor without moving it
    for cls in ("bpp::StringTokenizer",):
        c = fb.need_class(cls)
        for m in c["methods"]:
            f = fb.fns.get(m["key"])
            if f is None or f.body is None or f.rec.get("ctor") or f.rec.get("dtor"):
                continue
            er = [x for x in f.calls() if x["callee"]["name"] in ("erase", "pop_front", "clear") and "obj" in x and render(f.obj(x)) == "tokens_"]
            if not er:
                continue
            n += 1
            reads_cursor = any(x["k"] == "MemberExpr" and x["member"]["name"] == "currentPosition_" for x in f.all_nodes())
            if reads_cursor:
                chk.proved("D2", f.key, "cursor-aware-erase", f.loc(er[0]), "tokens are erased relative to currentPosition_")
            else:
                chk.refuted("D2", f.key, "cursor-aware-erase", f.loc(er[0]),
                            "tokens_ is shortened without looking at or moving currentPosition_: after some tokens were consumed the cursor can point past the end (numberOfRemainingTokens() wraps, nextToken() reads out of range)",
                            witness={"history": "consume a few tokens, then call %s()" % f.name})
    chk.floor("D2", "truncation/cursor sites", n, 2)


def _d3(chk, fb, fns):
    eff = e1.Effects(fb)
    nl = 0
    seen_stride = set()
    for f in fns:
        cfg = f.cfg
        loops = e1.natural_loops(cfg)
        for head, body in sorted(loops.items()):
            nl += 1
            tc = cfg.blocks[head].get("termcond")
            cond = render(f.nodes[tc])[:60] if tc in f.nodes else "?"
            ln = f.nodes.get(cfg.blocks[head].get("term")) or f.nodes.get(tc) or f.body
            path = e1.stuck_cycle(f, cfg, head, body, eff)
            if path:
                chk.refuted("D3", f.key, "stuck-cycle:" + cond, f.loc(ln), "the loop on '%s' has a feasible cyclic path (blocks %s) that writes nothing outliving the iteration: once taken it never terminates" % (cond, path),
                            witness={"blocks": path})
            else:
                chk.proved("D3", f.key, "loop-progress:" + cond, f.loc(ln), "every feasible cyclic path writes loop state or leaves")
            # zero stride: X = Y + S.size() where Y = T.find(S, X) in the same loop, S caller-supplied, no non-empty guard
            for b in body:
                for el in cfg.blocks[b]["el"]:
                    n = f.nodes.get(el)
                    if n is None:
                        continue
                    if is_call(n) and n["callee"]["name"] == "operator=" and "obj" in n and f.args(n):
                        # class-type assignment (iterators): same shape as the builtin one
                        l = strip(f.obj(n))
                        r = strip(f.args(n)[0])
                        n = dict(n, op="=")
                    elif n["k"] in ("BinaryOperator", "CompoundAssignOperator") and n["op"] in ("=", "+="):
                        l = strip(kids(n)[0])
                        r = strip(kids(n)[1])
                    else:
                        continue
                    if l is None or l["k"] != "DeclRefExpr":
                        continue
                    stride = None
                    base = None
                    if n["op"] == "=" and r["k"] == "BinaryOperator" and r["op"] == "+":
                        for u, v in ((strip(kids(r)[0]), strip(kids(r)[1])), (strip(kids(r)[1]), strip(kids(r)[0]))):
                            if is_call(v) and v["callee"]["name"] in ("size", "length") and u["k"] == "DeclRefExpr":
                                stride, base = v, u
                    elif n["op"] == "+=" and is_call(r) and r["callee"]["name"] in ("size", "length"):
                        stride, base = r, l
                    if stride is None and n["op"] == "=":
                        # X = search(X + S.size(), ..., S.begin(), S.end())   /   X = T.find(S, X + S.size())
                        if is_call(r) and r["callee"]["name"] in ("search", "find") and f.args(r):
                            for sumn in walk(r):
                                if sumn["k"] == "BinaryOperator" and sumn["op"] == "+" or (is_call(sumn) and sumn.get("op") == "+"):
                                    ops = kids(sumn) if sumn["k"] == "BinaryOperator" else [x for x in [f.nodes.get(i) for i in ([sumn.get("obj")] if "obj" in sumn else []) + sumn.get("args", [])] if x is not None]
                                    if len(ops) != 2:
                                        continue
                                    for u, v in ((strip(ops[0]), ops[1]), (strip(ops[1]), ops[0])):
                                        vv = strip(v)
                                        while vv is not None and vv["k"] in ("CXXStaticCastExpr", "CStyleCastExpr", "CXXFunctionalCastExpr") and kids(vv):
                                            vv = strip(kids(vv)[0])
                                        if u["k"] == "DeclRefExpr" and u["decl"]["id"] == l["decl"]["id"] and is_call(vv) and vv["callee"]["name"] in ("size", "length"):
                                            needle = render(f.obj(vv))
                                            if any(render(a).startswith(needle + ".begin()") or render(a) == needle for a in f.args(r)):
                                                stride, base = vv, l
                    direct_search = stride is not None and n["op"] == "=" and is_call(r)
                    if stride is None:
                        continue
                    S = f.obj(stride)
                    if not _param_rooted(f, S):
                        continue
                    stext = render(S)
                    # base must come from a find of S starting at the loop variable (or be the loop variable itself)
                    from_find = direct_search
                    if base["decl"]["id"] == l["decl"]["id"]:
                        from_find = from_find or n["op"] == "+="
                    for d in f.all_nodes():
                        init = None
                        if d["k"] == "DeclStmt":
                            for dd in d["decls"]:
                                if dd["id"] == base["decl"]["id"] and dd.get("init") is not None:
                                    init = strip(dd["init"])
                        elif d["k"] == "BinaryOperator" and d["op"] == "=" and strip(kids(d)[0])["k"] == "DeclRefExpr" and strip(kids(d)[0])["decl"]["id"] == base["decl"]["id"]:
                            init = strip(kids(d)[1])
                        if init is not None and _is_str_find(init) and init["callee"]["name"] == "find" and f.args(init) and render(f.args(init)[0]) == stext:
                            from_find = True
                    if not from_find:
                        continue
                    if (f.key, n["id"]) in seen_stride:
                        continue
                    seen_stride.add((f.key, n["id"]))

                    def est(facts, stext=stext):
                        for t, tr, nd in facts:
                            if t == "%s.empty()" % stext and tr is False:
                                return True
                            if t in ("(%s.size() == 0)" % stext, "(%s.length() == 0)" % stext) and tr is False:
                                return True
                            if t in ("(%s.size() > 0)" % stext, "(%s.size() != 0)" % stext) and tr is True:
                                return True
                        return False
                    ok, _ = e1.guarded_by(cfg, cfg.stmt_block(n), est)
                    if ok:
                        chk.proved("D3", f.key, "stride:%s.size()" % stext, f.loc(n), "advance by %s.size() guarded by a non-empty test" % stext)
                    else:
                        chk.refuted("D3", f.key, "stride:%s.size()" % stext, f.loc(n),
                                    "the loop advances '%s' only by %s.size() from a position found with find(%s, %s): with an empty '%s' the position never moves and the loop never ends" % (
                                        l["decl"]["name"], stext, stext, l["decl"]["name"], stext),
                                    witness={"input": "an empty '%s'" % stext})
    chk.floor("D3", "loops in the anchored units", nl, 100)


def _divides_by_param(fb, f, depth=2, _memo={}):
    """indices of parameters of f used as an unguarded integral divisor in f (or in a callee it is handed to)"""
    if f.key in _memo:
        return _memo[f.key]
    _memo[f.key] = set()
    out = set()
    if f.cfg is None:
        return out
    cfg = f.cfg
    pidx = {p["id"]: i for i, p in enumerate(f.params)}
    for e in f.all_nodes():
        if e["k"] in ("BinaryOperator", "CompoundAssignOperator") and e.get("op") in ("/", "%", "/=", "%=") and "double" not in (e.get("ty") or "") and "float" not in (e.get("ty") or ""):
            d = strip(kids(e)[1])
            if d["k"] == "DeclRefExpr" and d["decl"]["id"] in pidx and not _zero_guarded(f, cfg, e, render(d)):
                out.add(pidx[d["decl"]["id"]])
        elif is_call(e) and depth > 0 and e["callee"].get("inrepo"):
            for t in fb.targets(e, static_type_only=True):
                for k in _divides_by_param(fb, t, depth - 1):
                    a = f.args(e)
                    if k < len(a):
                        d = strip(a[k])
                        if d["k"] == "DeclRefExpr" and d["decl"]["id"] in pidx and not _zero_guarded(f, cfg, e, render(d)):
                            out.add(pidx[d["decl"]["id"]])
    _memo[f.key] = out
    return out


def _zero_guarded(f, cfg, node, dt):
    def est(facts, dt=dt):
        for t, tr, nd in facts:
            if t in ("(%s == 0)" % dt,) and tr is False:
                return True
            if t in ("(%s != 0)" % dt, "(%s > 0)" % dt, "(%s >= 1)" % dt) and tr is True:
                return True
            if t in ("(%s <= 0)" % dt, "(%s < 1)" % dt) and tr is False:
                return True
            if t == dt and tr is True:
                return True
        return False
    ok, _ = e1.guarded_by(cfg, cfg.stmt_block(node), est)
    return ok


def _d4(chk, fb, fns):
    n = 0
    for f in fns:
        cfg = f.cfg
        sites = []
        for e in f.all_nodes():
            if e["k"] in ("BinaryOperator", "CompoundAssignOperator") and e.get("op") in ("/", "%", "/=", "%=") and "double" not in (e.get("ty") or "") and "float" not in (e.get("ty") or ""):
                d = strip(kids(e)[1])
                if d["k"] == "DeclRefExpr" and any(p["id"] == d["decl"]["id"] for p in f.params):
                    sites.append((e, render(d), "'%s'" % e["op"]))
            elif is_call(e) and e["callee"].get("inrepo"):
                for t in fb.targets(e, static_type_only=True):
                    for k in _divides_by_param(fb, t):
                        a = f.args(e)
                        if k < len(a):
                            d = strip(a[k])
                            if d["k"] == "DeclRefExpr" and any(p["id"] == d["decl"]["id"] for p in f.params):
                                sites.append((e, render(d), "%s (which divides by its argument %d)" % (t.qname, k + 1)))
        for e, dt, what in sites:
            n += 1
            if _zero_guarded(f, cfg, e, dt):
                chk.proved("D4", f.key, "div:" + dt, f.loc(e), "divisor guarded against zero")
            elif f.is_public() or f.rec.get("static") or not f.cls:
                chk.refuted("D4", f.key, "div:" + dt, f.loc(e), "integral division %s by the parameter '%s' without a non-zero guard: %s(..., 0) traps (SIGFPE)" % (what, dt, f.name), witness={"input": "%s = 0" % dt})
            else:
                chk.unknown("D4", f.key, "div:" + dt, f.loc(e), "private helper; callers not analysed")
    chk.floor("D4", "integral divisions by a parameter", n, 2)


def _d5(chk, fb, fns):
    n = 0
    for f in fns:
        for t in f.all_nodes():
            if t["k"] == "CXXThrowExpr" and not t.get("rethrow"):
                n += 1
                ty = (t.get("thrown") or "").replace("const ", "")
                if ty in fb.classes and fb.derives_from(ty, "bpp::Exception"):
                    chk.proved("D5", f.key, "throw-type", f.loc(t), ty)
                else:
                    chk.refuted("D5", f.key, "throw-type:" + ty, f.loc(t), "throws a '%s', not the library's exception type" % ty)
    chk.floor("D5", "explicit throws", n, 80)


def instantiations(fb, headers):
    return ""


def _d6(chk, fb, fns):
    """look-ahead: a counted loop 'for (i = ..; i < B; ..)' whose body advances i a second time and then indexes with i, without
    testing i against B again.  The extra advance is triggered by the content of the current element (caller-supplied), so the last
    element can trigger it: the index is then B"""
    n = 0
    for f in fns:
        cfg = f.cfg
        if cfg is None:
            continue
        loops = e1.natural_loops(cfg)
        for lp in [x for x in f.all_nodes() if x["k"] in ("ForStmt", "WhileStmt") and x.get("cond") is not None and x.get("body") is not None]:
            cond = strip(f.nodes[lp["cond"]])
            if cond["k"] != "BinaryOperator" or cond["op"] not in ("<", "!="):
                continue
            iv, bound = strip(kids(cond)[0]), strip(kids(cond)[1])
            if iv["k"] != "DeclRefExpr" or iv["decl"]["kind"] != "local":
                continue
            vid, vname, B = iv["decl"]["id"], iv["decl"]["name"], render(bound)
            m_size = re.match(r"^(.*)\.(size|length)\(\)$", B)
            if not m_size:
                continue
            body = f.nodes[lp["body"]]
            head = cfg.stmt_block(f.nodes[lp["cond"]])
            lbody = loops.get(head, set())
            extra = [x for x in walk(body) if (x["k"] == "UnaryOperator" and x["op"] == "++" and strip(kids(x)[0])["k"] == "DeclRefExpr" and strip(kids(x)[0])["decl"]["id"] == vid)
                     or (x["k"] == "CompoundAssignOperator" and x["op"] == "+=" and strip(kids(x)[0])["k"] == "DeclRefExpr" and strip(kids(x)[0])["decl"]["id"] == vid)]
            if not extra:
                continue
            # containers whose size is the bound: the bounded one and locals constructed with that size
            sized = {m_size.group(1)}
            for dn in f.all_nodes():
                if dn["k"] == "DeclStmt":
                    for d in dn["decls"]:
                        i0 = strip(d["init"]) if d.get("init") is not None else None
                        if i0 is not None and i0["k"] == "CXXConstructExpr" and [render(a) for a in f.args(i0) if render(a) != "<default>"][:1] == [B]:
                            sized.add(d["name"])
            for m in extra:
                mb = cfg.stmt_block(m)
                uses = []
                for u in walk(body):
                    if is_call(u) and u["callee"]["name"] in ("operator[]", "at") and "obj" in u and f.args(u):
                        ix = strip(f.args(u)[0])
                        if ix["k"] == "DeclRefExpr" and ix["decl"]["id"] == vid and render(f.obj(u)) in sized and u["callee"]["name"] == "operator[]":
                            uses.append(u)
                for u in uses:
                    ub = cfg.stmt_block(u)
                    if mb is None or ub is None:
                        continue

                    def retest(facts, vname=vname, B=B):
                        for t, tr, nd in facts:
                            if t in ("(%s < %s)" % (vname, B), "(%s != %s)" % (vname, B)) and tr:
                                return True
                            if t in ("(%s >= %s)" % (vname, B), "(%s == %s)" % (vname, B), "(%s == %s)" % (B, vname), "(%s <= %s)" % (B, vname)) and tr is False:
                                return True
                        return False
                    # a path from the advance to the use inside one iteration (not through the loop head) with no re-test
                    if mb == ub:
                        reach = e1.earlier_in_block(cfg, m, u)
                        path = [mb]
                    else:
                        ok_, path = e1.guarded_by(cfg, ub, retest, entry=mb, through={head} | (set(cfg.blocks) - lbody))
                        reach = not ok_
                    n += 1
                    if not reach:
                        chk.proved("D6", f.key, "lookahead:%s[%s]" % (render(f.obj(u)), vname), f.loc(u), "after the extra advance (%s) '%s' is tested against %s before it indexes" % (f.loc(m), vname, B))
                        continue
                    # was the advance itself preceded by 'i + 1 < B'?
                    pre, _ = e1.guarded_by(cfg, mb, lambda facts: any(t in ("((%s + 1) < %s)" % (vname, B), "((%s + 1) != %s)" % (vname, B)) and tr for t, tr, _ in facts))
                    con = "lookahead:%s[%s]" % (render(f.obj(u)), vname)
                    if pre:
                        chk.proved("D6", f.key, con, f.loc(u), "the extra advance of '%s' is dominated by '%s + 1 < %s'" % (vname, vname, B))
                    else:
                        chk.refuted("D6", f.key, con, f.loc(u),
                                    "'%s' runs over 0..%s; the body advances it again (%s) and then reads %s[%s] without testing it against %s: when the last element triggers the advance the index equals the size" % (
                                        vname, B, f.loc(m), render(f.obj(u)), vname, B),
                                    witness={"input": "a last element that triggers the look-ahead (e.g. a final line ending with the continuation character)"})
    return n


def _d7(chk, fb, fns):
    """first-element access on the token list of a tokenizer: a string made of separators only (or an empty one) gives no token at
    all, so '*tok.getTokens().begin()', 'getTokens().begin() + k', front()/back()/[k] need a dominating test that a token exists"""
    n = 0
    for f in fns:
        cfg = f.cfg
        for u in f.all_nodes():
            cont, what = None, None
            if u["k"] == "UnaryOperator" and u["op"] == "*" and not u.get("postfix"):
                x = strip(kids(u)[0])
                if is_call(x) and x["callee"]["name"] == "begin" and "obj" in x:
                    cont, what = f.obj(x), "*%s.begin()" % render(f.obj(x))
                elif x["k"] == "BinaryOperator" and x["op"] == "+" and is_call(strip(kids(x)[0])) and strip(kids(x)[0])["callee"]["name"] == "begin" and "obj" in strip(kids(x)[0]):
                    cont, what = f.obj(strip(kids(x)[0])), "*(%s.begin() + %s)" % (render(f.obj(strip(kids(x)[0]))), render(kids(x)[1]))
            elif is_call(u) and u["callee"]["name"] == "operator*" and ("obj" in u or f.args(u)):
                x = strip(f.obj(u)) if "obj" in u else strip(f.args(u)[0])
                if is_call(x) and x["callee"]["name"] == "begin" and "obj" in x:
                    cont, what = f.obj(x), "*%s.begin()" % render(f.obj(x))
            elif is_call(u) and u["callee"]["name"] in ("front", "back") and "obj" in u:
                cont, what = f.obj(u), "%s.%s()" % (render(f.obj(u)), u["callee"]["name"])
            elif is_call(u) and u.get("op") == "+" and f.args(u) and len(f.args(u)) == 2 and is_call(strip(f.args(u)[0])) and strip(f.args(u)[0])["callee"]["name"] == "begin" and "obj" in strip(f.args(u)[0]):
                k_ = strip(f.args(u)[1])
                if k_["k"] == "IntegerLiteral" and k_["val"] >= 1:
                    cont, what = f.obj(strip(f.args(u)[0])), "%s.begin() + %s" % (render(f.obj(strip(f.args(u)[0]))), k_["val"])
            if cont is None:
                continue
            raw = render(cont)
            reftys = {d["id"] for dn in f.all_nodes() if dn["k"] == "DeclStmt" for d in dn["decls"] if (d.get("ty") or "").endswith("&")}
            ct = render(cont, {k_: v_ for k_, v_ in local_inits(f).items() if k_ in reftys})       # a reference bound to the token list stands for it
            m = re.match(r"^(\w+)\.getTokens\(\)$", ct)
            if not m:
                continue
            tok = m.group(1)
            n += 1

            def est(facts, tok=tok, ct=ct, raw=raw):
                for t, tr, nd in facts:
                    if raw != ct and t.startswith(raw + "."):
                        t = ct + t[len(raw):]
                    elif raw != ct and t.startswith("(" + raw + "."):
                        t = "(" + ct + t[len(raw) + 1:]
                    if t in ("%s.hasMoreToken()" % tok, "%s.numberOfRemainingTokens()" % tok, "%s.size()" % ct) and tr is True:
                        return True
                    if t == "%s.empty()" % ct and tr is False:
                        return True
                    if re.match(r"^\((%s\.numberOfRemainingTokens\(\)|%s\.size\(\)) (>|>=|!=) \d+\)$" % (re.escape(tok), re.escape(ct)), t) and tr is True and not t.endswith(">= 0)"):
                        return True
                    if re.match(r"^\((%s\.numberOfRemainingTokens\(\)|%s\.size\(\)) (==|<|<=) \d+\)$" % (re.escape(tok), re.escape(ct)), t) and tr is False and not t.endswith("< 0)"):
                        return True
                return False
            ok, path = e1.guarded_by(cfg, cfg.stmt_block(u), est)
            con = "first-token:" + tok
            if ok:
                chk.proved("D7", f.key, con, f.loc(u), "'%s' is dominated by a test that a token exists" % what)
            else:
                chk.refuted("D7", f.key, con, f.loc(u),
                            "'%s' with no test that the tokenizer found a token: a text made of separators only gives an empty token list and the iterator is not dereferenceable" % what,
                            witness={"input": "a line that consists of the separator only", "blocks": path})
    return n


def _d8(chk, fb, fns):
    """map::at(K) raises std::out_of_range (not a library exception) when K is absent: the access is dominated by a presence test
    of the SAME key in the same map (parameterExists(K, M), M.find(K) != M.end(), M.count(K)).  A dominating presence test of a
    different key of that map is the recognised slip (tests one option name, reads another)"""
    n = 0
    for f in fns:
        cfg = f.cfg
        for c in f.calls():
            if c["callee"]["name"] != "at" or "obj" not in c or "std::map" not in c["callee"].get("cls", "") or not f.args(c):
                continue
            M, K = render(f.obj(c)), render(f.args(c)[0])
            n += 1
            tested = []

            def est(facts, M=M, K=K, tested=tested):
                for t, tr, nd in facts:
                    nd0 = strip(nd)
                    key = None
                    if is_call(nd0) and nd0["callee"]["name"] == "parameterExists" and len(f.args(nd0)) >= 2 and render(f.args(nd0)[1]) == M and tr is True:
                        key = render(f.args(nd0)[0])
                    elif is_call(nd0) and nd0["callee"]["name"] == "count" and "obj" in nd0 and render(f.obj(nd0)) == M and tr is True:
                        key = render(f.args(nd0)[0])
                    elif nd0 is not None and nd0["k"] == "BinaryOperator" and nd0.get("op") in ("!=", "=="):
                        for x_, y_ in ((kids(nd0)[0], kids(nd0)[1]), (kids(nd0)[1], kids(nd0)[0])):
                            x0 = strip(x_)
                            if is_call(x0) and x0["callee"]["name"] == "find" and "obj" in x0 and render(f.obj(x0)) == M and render(y_) == M + ".end()" and tr is (nd0["op"] == "!="):
                                key = render(f.args(x0)[0])
                    if key is not None:
                        tested.append(key)
                        if key == K:
                            return True
                return False
            ok, _ = e1.guarded_by(cfg, cfg.stmt_block(c), est)
            con = "map-at:%s" % M
            if ok:
                chk.proved("D8", f.key, con, f.loc(c), "%s.at(%s) follows a presence test of that key" % (M, K))
            else:
                # a presence test of another key that dominates the access?
                dom_other, _ = e1.guarded_by(cfg, cfg.stmt_block(c), lambda facts, K=K: any(k_ != K for k_ in _keys_tested(f, facts, M)))
                if dom_other:
                    chk.refuted("D8", f.key, con, f.loc(c),
                                "%s.at(%s) is reached under a presence test of a different key of %s, not of %s: when only the tested key is present std::map::at raises std::out_of_range, which is not a library exception" % (M, K, M, K),
                                witness={"input": "a map that holds the tested key only"})
                else:
                    chk.unknown("D8", f.key, con, f.loc(c), "no presence test of %s dominates %s.at()" % (K, M))
    return n


def _keys_tested(f, facts, M):
    out = []
    for t, tr, nd in facts:
        nd0 = strip(nd)
        if is_call(nd0) and nd0["callee"]["name"] == "parameterExists" and len(f.args(nd0)) >= 2 and render(f.args(nd0)[1]) == M and tr is True:
            out.append(render(f.args(nd0)[0]))
        elif is_call(nd0) and nd0["callee"]["name"] == "count" and "obj" in nd0 and render(f.obj(nd0)) == M and tr is True:
            out.append(render(f.args(nd0)[0]))
    return out


def run(chk, fb, tier):
    chk.rule("D1", "a std::string search result on caller-supplied text is compared with npos (or is find+1) on every path before it is used as substr/erase/insert position, index, or iterator offset")
    chk.rule("D2", "'c.size() - k' (unsigned) as loop bound/index on a caller-supplied or possibly-empty member container needs a dominating non-emptiness guard")
    chk.rule("D3", "no loop has a feasible state-preserving cycle (exception edges included); no loop progresses only by 's.size()' of a caller-supplied string found with find(s, pos) without a non-empty guard")
    chk.rule("D4", "integral / and % by a parameter need a dominating non-zero guard")
    chk.rule("D5", "explicit throw operands derive from bpp::Exception")
    fns = _fns(fb)
    chk.floor("D1", "functions in the anchored units", len(fns), 150)
    _d1(chk, fb, fns)
    _d2(chk, fb, fns)
    _d2b(chk, fb, fns)
    _d2c(chk, fb, fns)
    _d3(chk, fb, fns)
    _d4(chk, fb, fns)
    _d5(chk, fb, fns)
    chk.rule("D6", "a counted loop over 0..X.size() that advances its counter a second time inside the body re-tests it against the bound (or tests counter + 1 beforehand) before indexing a container of that size with it")
    chk.floor("D6", "look-ahead sites", _d6(chk, fb, fns), 1)
    chk.rule("D7", "'*tok.getTokens().begin()', 'tok.getTokens().begin() + k', front()/back() on the token list of a tokenizer are dominated by a test that a token exists")
    chk.floor("D7", "first-element accesses on token lists", _d7(chk, fb, fns), 1)
    chk.rule("D8", "std::map::at(K) is dominated by a presence test of the same key K in the same map")
    chk.floor("D8", "map::at accesses", _d8(chk, fb, fns), 4)
    from . import argswap as _argswap
    chk.rule("DA", "argument/parameter name agreement at forwarding calls in the anchored units (same-typed parameters must not be swapped)")
    _af = ('src/Bpp/Text/TextTools.cpp', 'src/Bpp/Text/StringTokenizer.cpp', 'src/Bpp/Text/NestedStringTokenizer.cpp', 'src/Bpp/Text/KeyvalTools.cpp', 'src/Bpp/Utils/AttributesTools.cpp', 'src/Bpp/App/ApplicationTools.cpp', 'src/Bpp/Io/FileTools.cpp', 'src/Bpp/Numeric/DataTable.cpp', 'src/Bpp/Io/BppODiscreteDistributionFormat.cpp', 'src/Bpp/Numeric/Constraints.h', 'src/Bpp/Numeric/Function/Operators/ComputationTree.cpp', 'src/Bpp/Numeric/ParameterList.cpp', 'src/Bpp/App/NumCalcApplicationTools.cpp')
    _argswap.check(chk, fb, "DA", [f_ for f_ in fb.concrete_fns() if f_.body is not None and any(f_.relfile.endswith(x_) for x_ in _af)], 1)
    chk.assume("std::string::operator[](size()) and substr(size()) are defined; a count argument larger than the remainder is clamped")
    chk.assume("members listed in MAY_BE_EMPTY_MEMBERS can be left empty by a public constructor (read once by hand)")
