"""C16 Text and option parsing never crashes, corrupts memory or hangs on any input (necessary conditions only).

 D1 npos discipline: the result of a string search on caller-supplied text is not used as a position / index / iterator
    offset while it may still be npos
 D2 unsigned underflow: 'size() - c' of a possibly empty container is not used as a loop bound or index
 D3 termination: no loop has a feasible state-preserving cycle; no loop advances only by the size of a caller-supplied,
    possibly empty string
 D4 integral division / modulo by a caller-supplied value is guarded against zero
 D5 only the library's exception type is thrown explicitly
"""
import re
from .facts import kids, strip, walk, is_call, render, local_inits, AnalysisBroken
from . import e1

EXPLANATION = ("Static analysis of NECESSARY conditions of C16 over the 13 anchored text/option/IO units (passing them does not prove absence of crashes): D1 typestate on results of "
               "std::string find*/rfind: MAYBE-NPOS until compared with npos (npos+1 is the safe idiom; a cast to a signed type keeps MAYBE-NPOS as -1), refuted when used as substr/erase/insert "
               "position, index or iterator offset on an unguarded path and the searched text is a parameter; D2 'size() - c' of a parameter (or of a member the constructors can leave empty) used as loop "
               "bound/index without an emptiness guard; D3 every loop (exception edges included) has no feasible cycle that writes nothing outliving the iteration, and no loop whose only progress is "
               "'+ s.size()' of a caller-supplied string that may be empty; D4 '/' and '%' on integers with a parameter divisor need a dominating non-zero guard; D5 throw operands derive from "
               "bpp::Exception. NOT decided: everything else a sanitizer would see (invalid iterators inside std algorithms, signed overflow, allocation size), and completeness.")

FILES = ["Text/TextTools.cpp", "Text/TextTools.h", "Text/StringTokenizer.cpp", "Text/StringTokenizer.h", "Text/NestedStringTokenizer.cpp", "Text/KeyvalTools.cpp", "Utils/AttributesTools.cpp",
         "App/ApplicationTools.cpp", "Io/FileTools.cpp", "Numeric/DataTable.cpp", "Io/BppODiscreteDistributionFormat.cpp", "Numeric/Constraints.h",
         "Function/Operators/ComputationTree.cpp", "Numeric/ParameterList.cpp", "App/NumCalcApplicationTools.cpp"]
FIND = ("find", "rfind", "find_first_of", "find_last_of", "find_first_not_of", "find_last_not_of")
# members that a public constructor can leave empty (confirmed by reading): used by D2
MAY_BE_EMPTY_MEMBERS = {"bpp::StringTokenizer::tokens_": "StringTokenizer(\"\", \",\") stores no token"}


def _fns(fb):
    return [f for f in fb.concrete_fns() if any(f.file.endswith(x) for x in FILES) and f.body is not None and f.cfg is not None]


def _is_str_find(n):
    return is_call(n) and n["callee"]["name"] in FIND and "basic_string" in n["callee"].get("cls", "")


def _is_npos(n):
    n = strip(n)
    if n is None:
        return False
    t = render(n)
    return t.endswith("npos")


def _param_rooted(f, node):
    r = e1._root_decl(node)
    if r and r[0] == "v":
        return any(p["id"] == r[1] for p in f.params)
    return False


def _npos_guard(facts, var):
    """does the edge establish var != npos (or var >= 0 for a signed copy)?"""
    for t, tr, nd in facts:
        nd = strip(nd)
        if nd["k"] == "BinaryOperator" or (is_call(nd) and nd.get("op") in ("==", "!=")):
            ks = kids(nd) if nd["k"] == "BinaryOperator" else None
            if ks is None:
                continue
            a, b = render(ks[0]), render(ks[1])
            op = nd["op"]
            for x, y in ((a, b), (b, a)):
                if x == var and y.endswith("npos"):
                    if (op == "!=" and tr) or (op == "==" and not tr):
                        return True
            if op in (">=",) and a == var and b in ("0",) and tr:
                return True
            if op in ("<",) and a == var and b in ("0",) and not tr:
                return True
            # var < other.size()/length() implies var != npos ; pos >= size false likewise
            if op == "<" and a == var and tr and (".size()" in b or ".length()" in b):
                return True
            if op == ">=" and a == var and not tr and (".size()" in b or ".length()" in b):
                return True
    return False


def _d1(chk, fb, fns):
    n_sites = 0
    for f in fns:
        cfg = f.cfg
        sub = local_inits(f)
        # variables holding a find result:  name -> (decl id, find call, signed?, plus)
        holders = {}
        for n in f.all_nodes():
            tgt = None
            rhs = None
            if n["k"] == "DeclStmt":
                for d in n["decls"]:
                    if d.get("init") is not None:
                        holders_from(f, holders, d["id"], d["name"], d["init"], d["ty"])
            elif n["k"] == "BinaryOperator" and n["op"] == "=":
                l = strip(kids(n)[0])
                if l["k"] == "DeclRefExpr":
                    holders_from(f, holders, l["decl"]["id"], l["decl"]["name"], kids(n)[1], l["decl"]["ty"])
        # copies / casts of a holder are holders too
        changed = True
        while changed:
            changed = False
            for n in f.all_nodes():
                pairs = []
                if n["k"] == "DeclStmt":
                    pairs = [(d["id"], d["name"], d["init"], d["ty"]) for d in n["decls"] if d.get("init") is not None]
                elif n["k"] == "BinaryOperator" and n["op"] == "=" and strip(kids(n)[0])["k"] == "DeclRefExpr":
                    l = strip(kids(n)[0])
                    pairs = [(l["decl"]["id"], l["decl"]["name"], kids(n)[1], l["decl"]["ty"])]
                for did, name, init, ty in pairs:
                    e = strip(init)
                    while e is not None and e["k"] in ("CXXStaticCastExpr", "CStyleCastExpr", "CXXFunctionalCastExpr", "ImplicitCastExpr") and kids(e):
                        e = strip(kids(e)[0])
                    if e is not None and e["k"] == "DeclRefExpr" and e["decl"]["id"] in holders and did not in holders and did != e["decl"]["id"]:
                        src = holders[e["decl"]["id"]]
                        holders[did] = dict(name=name, finds=list(src["finds"]), signed=src["signed"] or ty in ("long", "int"), plus=src["plus"], copy_of=e["decl"]["name"])
                        changed = True
        safe_pos = {h for h, v in holders.items() if v["plus"]}
        for hid, h in sorted(holders.items(), key=lambda kv: kv[1]["name"]):
            if h["plus"]:
                continue        # find(...) + 1 : npos + 1 == 0 is a valid position
            # every use of the variable in an error context
            for u in f.all_nodes():
                if u["k"] != "DeclRefExpr" or u["decl"]["id"] != hid:
                    continue
                ctx = _error_context(f, u)
                if ctx is None:
                    continue
                n_sites += 1
                var = h["name"]

                def est(facts, var=var, h=h):
                    if _npos_guard(facts, var) or (h.get("copy_of") and _npos_guard(facts, h["copy_of"])):
                        return True
                    # ordering guard: A > var is false with A a safe position (>= 0)  =>  var >= 0
                    for t, tr, nd in facts:
                        nd = strip(nd)
                        if nd["k"] == "BinaryOperator" and nd["op"] == ">" and render(kids(nd)[1]) == var and not tr:
                            a = strip(kids(nd)[0])
                            if a["k"] == "DeclRefExpr" and a["decl"]["id"] in safe_pos:
                                return True
                        if nd["k"] == "BinaryOperator" and nd["op"] in ("||",) and not tr:
                            pass
                    return False
                ok, path = e1.guarded_by(cfg, cfg.stmt_block(u), est)
                # the loop idiom: while (index != npos) { ... use index ... index = find }  is covered by the edge facts
                if ok:
                    chk.proved("D1", f.key, "npos:%s->%s" % (var, ctx), f.loc(u), "use of '%s' as %s dominated by a test against npos" % (var, ctx))
                elif not all(_param_rooted(f, fc) or _member_text(f, fc) for fc in h["finds"]):
                    chk.unknown("D1", f.key, "npos:%s->%s" % (var, ctx), f.loc(u), "searched text is not caller-supplied")
                elif _reassigned_safe(f, cfg, hid, u):
                    chk.unknown("D1", f.key, "npos:%s->%s" % (var, ctx), f.loc(u), "variable also assigned from non-search expressions")
                else:
                    chk.refuted("D1", f.key, "npos:%s->%s" % (var, ctx), f.loc(u),
                                "'%s' holds the result of %s on caller-supplied text%s and is used as %s on a path with no test against npos" % (
                                    var, render(h["finds"][0])[:50], " (cast to a signed type: -1)" if h["signed"] else "", ctx),
                                witness={"blocks": path, "input": "text that does not contain the searched character(s)"})
        # direct uses: substr(find(...)) without +1
        for c in f.calls():
            if c["callee"]["name"] in ("substr", "erase", "insert", "replace", "at", "operator[]") and "basic_string" in c["callee"].get("cls", "") and f.args(c):
                a0 = strip(f.args(c)[0])
                if _is_str_find(a0) and _param_rooted(f, f.obj(a0)):
                    n_sites += 1
                    chk.refuted("D1", f.key, "npos:direct->%s" % c["callee"]["name"], f.loc(c), "%s is handed the raw result of %s, which is npos when the text does not contain the needle" % (c["callee"]["name"], render(a0)[:40]),
                                witness={"input": "text without the searched character(s)"})
    chk.floor("D1", "uses of search results in position contexts", n_sites, 12)


def _member_text(f, find_call):
    return False


def _reassigned_safe(f, cfg, hid, use):
    return False


def holders_from(f, holders, did, name, expr, ty):
    e = strip(expr)
    signed = False
    while e is not None and e["k"] in ("CXXStaticCastExpr", "CStyleCastExpr", "CXXFunctionalCastExpr", "ImplicitCastExpr") and kids(e):
        if e.get("cast") == "IntegralCast" and ("long" == ty or ty in ("long", "int", "std::ptrdiff_t")):
            signed = True
        e = strip(kids(e)[0])
    if ty in ("long", "int"):
        signed = True
    plus = False
    if e is not None and e["k"] == "BinaryOperator" and e["op"] == "+":
        a, b = strip(kids(e)[0]), strip(kids(e)[1])
        if _is_str_find(a) and b["k"] == "IntegerLiteral" and b["val"] >= 1:
            e = a
            plus = True
    if _is_str_find(e):
        h = holders.setdefault(did, dict(name=name, finds=[], signed=signed, plus=plus))
        h["finds"].append(f.obj(e))
        h["plus"] = h["plus"] and plus
        h["signed"] = h["signed"] or signed
    elif did in holders:
        # also assigned from something else (e.g. index = newIndex + 1): keep, uses are still checked against guards
        pass


def _error_context(f, u):
    """how a variable occurrence is used, if that use needs a valid position"""
    p = f.parent.get(u["id"])
    x = u
    while p is not None and p["k"] in ("ImplicitCastExpr", "ParenExpr", "CXXStaticCastExpr", "MaterializeTemporaryExpr"):
        x, p = p, f.parent.get(p["id"])
    if p is None:
        return None
    if is_call(p) and "basic_string" in p["callee"].get("cls", "") and p["callee"]["name"] in ("substr", "erase", "insert", "replace", "at", "operator[]", "assign", "compare"):
        a = p.get("args", [])
        if a and x["id"] == a[0]:
            return p["callee"]["name"] + " position"
        return None
    if p["k"] == "BinaryOperator" and p["op"] in ("+", "-"):
        # begin() + p  (iterator arithmetic)
        other = kids(p)[0] if kids(p)[1] is x else kids(p)[1]
        if "iterator" in (other.get("ty") or "") or "__normal_iterator" in (other.get("ty") or ""):
            return "iterator offset"
        return None
    if is_call(p) and p["callee"]["via"] == "operator" and p.get("op") in ("+", "-", "+="):
        ids = ([p["obj"]] if "obj" in p else []) + p.get("args", [])
        nodes = {n["id"]: n for n in walk(p)}
        tys = [nodes[i].get("ty", "") for i in ids if i in nodes and nodes[i] is not x]
        if any("iterator" in t for t in tys):
            return "iterator offset"
    return None


def _d2(chk, fb, fns):
    n = 0
    for f in fns:
        cfg = f.cfg
        for e in f.all_nodes():
            if e["k"] != "BinaryOperator" or e["op"] != "-":
                continue
            a, b = strip(kids(e)[0]), strip(kids(e)[1])
            if not (is_call(a) and a["callee"]["name"] in ("size", "length") and b["k"] == "IntegerLiteral" and b["val"] >= 1):
                continue
            if "unsigned" not in (e.get("ty") or ""):
                continue
            cont = f.obj(a)
            root = e1._root_decl(cont)
            ctext = render(cont)
            # only bounds / indices matter
            par = f.parent.get(e["id"])
            x = e
            while par is not None and par["k"] in ("ImplicitCastExpr", "ParenExpr"):
                x, par = par, f.parent.get(par["id"])
            role = None
            if par is not None and par["k"] == "BinaryOperator" and par["op"] in ("<", "<=", "!=") and kids(par)[1] is x and f.enclosing(par, ("ForStmt", "WhileStmt")) is not None:
                lp = f.enclosing(par, ("ForStmt", "WhileStmt"))
                if "cond" in lp and f.contains(f.nodes[lp["cond"]], par):
                    role = "loop bound"
            if par is not None and is_call(par) and par["callee"]["name"] in ("operator[]", "at") and par.get("args") and par["args"][0] == x["id"]:
                role = "index"
            if role is None:
                continue
            n += 1
            c = b["val"]

            def est(facts, ctext=ctext, c=c):
                for t, tr, nd in facts:
                    if t in ("%s.empty()" % ctext,) and tr is False:
                        return True
                    if t in ("(%s.size() == 0)" % ctext, "(%s.length() == 0)" % ctext) and tr is False:
                        return True
                    if t in ("(%s.size() > 0)" % ctext, "(%s.size() != 0)" % ctext, "(%s.size() >= %d)" % (ctext, c)) and tr is True:
                        return True
                    m = re.match(r"\(%s\.(size|length)\(\) (<|<=) (\d+)\)" % re.escape(ctext), t)
                    if m and tr is False and int(m.group(3)) >= (c if m.group(2) == "<" else c - 1):
                        return True
                    m = re.match(r"\(%s\.(size|length)\(\) (>|>=) (\d+)\)" % re.escape(ctext), t)
                    if m and tr is True:
                        return True
                return False
            ok, path = e1.guarded_by(cfg, cfg.stmt_block(e), est)
            caller_controlled = (root and root[0] == "v" and any(p["id"] == root[1] for p in f.params)) or (root and root[0] == "f" and root[1] in MAY_BE_EMPTY_MEMBERS)
            if ok:
                chk.proved("D2", f.key, "underflow:%s.size()-%d" % (ctext, c), f.loc(e), "guarded by a non-emptiness test")
            elif caller_controlled and role == "loop bound" and _loop_indexes(f, f.enclosing(par, ("ForStmt", "WhileStmt")), ctext):
                why = MAY_BE_EMPTY_MEMBERS.get(root[1], "caller-supplied container") if root[0] == "f" else "caller-supplied container"
                chk.refuted("D2", f.key, "underflow:%s.size()-%d" % (ctext, c), f.loc(e),
                            "'%s.size() - %d' is unsigned and used as %s with no emptiness guard: on an empty container it wraps to a huge value and the loop indexes far out of range (%s)" % (ctext, c, role, why),
                            witness={"input": "an empty %s" % ctext})
            elif caller_controlled and role == "index":
                chk.refuted("D2", f.key, "underflow:%s.size()-%d" % (ctext, c), f.loc(e), "'%s[%s.size() - %d]' with no emptiness guard on a caller-supplied container" % (ctext, ctext, c),
                            witness={"input": "an empty %s" % ctext})
            else:
                chk.unknown("D2", f.key, "underflow:%s.size()-%d" % (ctext, c), f.loc(e), "no local guard; emptiness depends on an invariant established elsewhere")
    chk.floor("D2", "'size() - c' bounds/indices", n, 3)


def _loop_indexes(f, lp, ctext):
    """does the loop body index the same container (so that a wrapped bound reads out of range)?"""
    if lp is None:
        return False
    for c in walk(f.nodes[lp["body"]]):
        if is_call(c) and c["callee"]["name"] in ("operator[]", "at") and "obj" in c:
            return True
    return False


def _d2b(chk, fb, fns):
    """after R.erase(R.begin() + E, R.end()) the string has E characters: a later R.begin() + B needs B <= E"""
    n = 0
    for f in fns:
        cfg = f.cfg
        truncs = []
        for c in f.calls():
            if c["callee"]["name"] == "erase" and "basic_string" in c["callee"].get("cls", "") and len(f.args(c)) == 2:
                a0, a1 = render(f.args(c)[0]), render(f.args(c)[1])
                R = render(f.obj(c))
                m = re.match(r"\(%s\.begin\(\) \+ (\w+)\)$" % re.escape(R), a0)
                if m and a1 == R + ".end()":
                    truncs.append((c, R, m.group(1)))
        for tc, R, E in truncs:
            for c in f.calls():
                if c is tc or "obj" not in c or render(f.obj(c)) != R or not e1.before_in_function(cfg, tc, c) or not cfg.dominates(cfg.stmt_block(tc), cfg.stmt_block(c)):
                    continue
                for a in f.args(c):
                    m = re.match(r"\(%s\.begin\(\) \+ (\w+)\)$" % re.escape(R), render(a))
                    if not m or m.group(1) == E:
                        continue
                    B = m.group(1)
                    n += 1

                    def est(facts, B=B, E=E):
                        for t, tr, nd in facts:
                            if t in ("(%s > %s)" % (B, E), "(%s < %s)" % (E, B)) and tr is False:
                                return True
                            if t in ("(%s <= %s)" % (B, E), "(%s >= %s)" % (E, B)) and tr is True:
                                return True
                        return False
                    ok, path = e1.guarded_by(cfg, cfg.stmt_block(c), est)
                    if ok:
                        chk.proved("D2", f.key, "offset-in-truncated:%s+%s" % (R, B), f.loc(c), "%s <= %s established before %s.begin() + %s on the string truncated to %s characters" % (B, E, R, B, E))
                    else:
                        chk.refuted("D2", f.key, "offset-in-truncated:%s+%s" % (R, B), f.loc(c),
                                    "'%s' was truncated to %s characters (erase(begin()+%s, end())) and is then addressed at begin() + %s with no guard that %s <= %s: the iterator lies beyond end()" % (R, E, E, B, B, E),
                                    witness={"input": "text where position '%s' lies after position '%s' (e.g. the last '.' before the last directory separator)" % (B, E)})
    # cursor-aware erase in the tokenizers: erasing tokens must not go below the read cursor without moving it
    for cls in ("bpp::StringTokenizer",):
        c = fb.need_class(cls)
        for m in c["methods"]:
            f = fb.fns.get(m["key"])
            if f is None or f.body is None or f.rec.get("ctor") or f.rec.get("dtor"):
                continue
            er = [x for x in f.calls() if x["callee"]["name"] in ("erase", "pop_front", "clear") and "obj" in x and render(f.obj(x)) == "tokens_"]
            if not er:
                continue
            n += 1
            reads_cursor = any(x["k"] == "MemberExpr" and x["member"]["name"] == "currentPosition_" for x in f.all_nodes())
            if reads_cursor:
                chk.proved("D2", f.key, "cursor-aware-erase", f.loc(er[0]), "tokens are erased relative to currentPosition_")
            else:
                chk.refuted("D2", f.key, "cursor-aware-erase", f.loc(er[0]),
                            "tokens_ is shortened without looking at or moving currentPosition_: after some tokens were consumed the cursor can point past the end (numberOfRemainingTokens() wraps, nextToken() reads out of range)",
                            witness={"history": "consume a few tokens, then call %s()" % f.name})
    chk.floor("D2", "truncation/cursor sites", n, 2)


def _d3(chk, fb, fns):
    eff = e1.Effects(fb)
    nl = 0
    seen_stride = set()
    for f in fns:
        cfg = f.cfg
        loops = e1.natural_loops(cfg)
        for head, body in sorted(loops.items()):
            nl += 1
            tc = cfg.blocks[head].get("termcond")
            cond = render(f.nodes[tc])[:60] if tc in f.nodes else "?"
            ln = f.nodes.get(cfg.blocks[head].get("term")) or f.nodes.get(tc) or f.body
            path = e1.stuck_cycle(f, cfg, head, body, eff)
            if path:
                chk.refuted("D3", f.key, "stuck-cycle:" + cond, f.loc(ln), "the loop on '%s' has a feasible cyclic path (blocks %s) that writes nothing outliving the iteration: once taken it never terminates" % (cond, path),
                            witness={"blocks": path})
            else:
                chk.proved("D3", f.key, "loop-progress:" + cond, f.loc(ln), "every feasible cyclic path writes loop state or leaves")
            # zero stride: X = Y + S.size() where Y = T.find(S, X) in the same loop, S caller-supplied, no non-empty guard
            for b in body:
                for el in cfg.blocks[b]["el"]:
                    n = f.nodes.get(el)
                    if n is None:
                        continue
                    if is_call(n) and n["callee"]["name"] == "operator=" and "obj" in n and f.args(n):
                        # class-type assignment (iterators): same shape as the builtin one
                        l = strip(f.obj(n))
                        r = strip(f.args(n)[0])
                        n = dict(n, op="=")
                    elif n["k"] in ("BinaryOperator", "CompoundAssignOperator") and n["op"] in ("=", "+="):
                        l = strip(kids(n)[0])
                        r = strip(kids(n)[1])
                    else:
                        continue
                    if l is None or l["k"] != "DeclRefExpr":
                        continue
                    stride = None
                    base = None
                    if n["op"] == "=" and r["k"] == "BinaryOperator" and r["op"] == "+":
                        for u, v in ((strip(kids(r)[0]), strip(kids(r)[1])), (strip(kids(r)[1]), strip(kids(r)[0]))):
                            if is_call(v) and v["callee"]["name"] in ("size", "length") and u["k"] == "DeclRefExpr":
                                stride, base = v, u
                    elif n["op"] == "+=" and is_call(r) and r["callee"]["name"] in ("size", "length"):
                        stride, base = r, l
                    if stride is None and n["op"] == "=":
                        # X = search(X + S.size(), ..., S.begin(), S.end())   /   X = T.find(S, X + S.size())
                        if is_call(r) and r["callee"]["name"] in ("search", "find") and f.args(r):
                            for sumn in walk(r):
                                if sumn["k"] == "BinaryOperator" and sumn["op"] == "+" or (is_call(sumn) and sumn.get("op") == "+"):
                                    ops = kids(sumn) if sumn["k"] == "BinaryOperator" else [x for x in [f.nodes.get(i) for i in ([sumn.get("obj")] if "obj" in sumn else []) + sumn.get("args", [])] if x is not None]
                                    if len(ops) != 2:
                                        continue
                                    for u, v in ((strip(ops[0]), ops[1]), (strip(ops[1]), ops[0])):
                                        vv = strip(v)
                                        while vv is not None and vv["k"] in ("CXXStaticCastExpr", "CStyleCastExpr", "CXXFunctionalCastExpr") and kids(vv):
                                            vv = strip(kids(vv)[0])
                                        if u["k"] == "DeclRefExpr" and u["decl"]["id"] == l["decl"]["id"] and is_call(vv) and vv["callee"]["name"] in ("size", "length"):
                                            needle = render(f.obj(vv))
                                            if any(render(a).startswith(needle + ".begin()") or render(a) == needle for a in f.args(r)):
                                                stride, base = vv, l
                    direct_search = stride is not None and n["op"] == "=" and is_call(r)
                    if stride is None:
                        continue
                    S = f.obj(stride)
                    if not _param_rooted(f, S):
                        continue
                    stext = render(S)
                    # base must come from a find of S starting at the loop variable (or be the loop variable itself)
                    from_find = direct_search
                    if base["decl"]["id"] == l["decl"]["id"]:
                        from_find = from_find or n["op"] == "+="
                    for d in f.all_nodes():
                        init = None
                        if d["k"] == "DeclStmt":
                            for dd in d["decls"]:
                                if dd["id"] == base["decl"]["id"] and dd.get("init") is not None:
                                    init = strip(dd["init"])
                        elif d["k"] == "BinaryOperator" and d["op"] == "=" and strip(kids(d)[0])["k"] == "DeclRefExpr" and strip(kids(d)[0])["decl"]["id"] == base["decl"]["id"]:
                            init = strip(kids(d)[1])
                        if init is not None and _is_str_find(init) and init["callee"]["name"] == "find" and f.args(init) and render(f.args(init)[0]) == stext:
                            from_find = True
                    if not from_find:
                        continue
                    if (f.key, n["id"]) in seen_stride:
                        continue
                    seen_stride.add((f.key, n["id"]))

                    def est(facts, stext=stext):
                        for t, tr, nd in facts:
                            if t == "%s.empty()" % stext and tr is False:
                                return True
                            if t in ("(%s.size() == 0)" % stext, "(%s.length() == 0)" % stext) and tr is False:
                                return True
                            if t in ("(%s.size() > 0)" % stext, "(%s.size() != 0)" % stext) and tr is True:
                                return True
                        return False
                    ok, _ = e1.guarded_by(cfg, cfg.stmt_block(n), est)
                    if ok:
                        chk.proved("D3", f.key, "stride:%s.size()" % stext, f.loc(n), "advance by %s.size() guarded by a non-empty test" % stext)
                    else:
                        chk.refuted("D3", f.key, "stride:%s.size()" % stext, f.loc(n),
                                    "the loop advances '%s' only by %s.size() from a position found with find(%s, %s): with an empty '%s' the position never moves and the loop never ends" % (
                                        l["decl"]["name"], stext, stext, l["decl"]["name"], stext),
                                    witness={"input": "an empty '%s'" % stext})
    chk.floor("D3", "loops in the anchored units", nl, 100)


def _divides_by_param(fb, f, depth=2, _memo={}):
    """indices of parameters of f used as an unguarded integral divisor in f (or in a callee it is handed to)"""
    if f.key in _memo:
        return _memo[f.key]
    _memo[f.key] = set()
    out = set()
    if f.cfg is None:
        return out
    cfg = f.cfg
    pidx = {p["id"]: i for i, p in enumerate(f.params)}
    for e in f.all_nodes():
        if e["k"] in ("BinaryOperator", "CompoundAssignOperator") and e.get("op") in ("/", "%", "/=", "%=") and "double" not in (e.get("ty") or "") and "float" not in (e.get("ty") or ""):
            d = strip(kids(e)[1])
            if d["k"] == "DeclRefExpr" and d["decl"]["id"] in pidx and not _zero_guarded(f, cfg, e, render(d)):
                out.add(pidx[d["decl"]["id"]])
        elif is_call(e) and depth > 0 and e["callee"].get("inrepo"):
            for t in fb.targets(e, static_type_only=True):
                for k in _divides_by_param(fb, t, depth - 1):
                    a = f.args(e)
                    if k < len(a):
                        d = strip(a[k])
                        if d["k"] == "DeclRefExpr" and d["decl"]["id"] in pidx and not _zero_guarded(f, cfg, e, render(d)):
                            out.add(pidx[d["decl"]["id"]])
    _memo[f.key] = out
    return out


def _zero_guarded(f, cfg, node, dt):
    def est(facts, dt=dt):
        for t, tr, nd in facts:
            if t in ("(%s == 0)" % dt,) and tr is False:
                return True
            if t in ("(%s != 0)" % dt, "(%s > 0)" % dt, "(%s >= 1)" % dt) and tr is True:
                return True
            if t in ("(%s <= 0)" % dt, "(%s < 1)" % dt) and tr is False:
                return True
            if t == dt and tr is True:
                return True
        return False
    ok, _ = e1.guarded_by(cfg, cfg.stmt_block(node), est)
    return ok


def _d4(chk, fb, fns):
    n = 0
    for f in fns:
        cfg = f.cfg
        sites = []
        for e in f.all_nodes():
            if e["k"] in ("BinaryOperator", "CompoundAssignOperator") and e.get("op") in ("/", "%", "/=", "%=") and "double" not in (e.get("ty") or "") and "float" not in (e.get("ty") or ""):
                d = strip(kids(e)[1])
                if d["k"] == "DeclRefExpr" and any(p["id"] == d["decl"]["id"] for p in f.params):
                    sites.append((e, render(d), "'%s'" % e["op"]))
            elif is_call(e) and e["callee"].get("inrepo"):
                for t in fb.targets(e, static_type_only=True):
                    for k in _divides_by_param(fb, t):
                        a = f.args(e)
                        if k < len(a):
                            d = strip(a[k])
                            if d["k"] == "DeclRefExpr" and any(p["id"] == d["decl"]["id"] for p in f.params):
                                sites.append((e, render(d), "%s (which divides by its argument %d)" % (t.qname, k + 1)))
        for e, dt, what in sites:
            n += 1
            if _zero_guarded(f, cfg, e, dt):
                chk.proved("D4", f.key, "div:" + dt, f.loc(e), "divisor guarded against zero")
            elif f.is_public() or f.rec.get("static") or not f.cls:
                chk.refuted("D4", f.key, "div:" + dt, f.loc(e), "integral division %s by the parameter '%s' without a non-zero guard: %s(..., 0) traps (SIGFPE)" % (what, dt, f.name), witness={"input": "%s = 0" % dt})
            else:
                chk.unknown("D4", f.key, "div:" + dt, f.loc(e), "private helper; callers not analysed")
    chk.floor("D4", "integral divisions by a parameter", n, 2)


def _d5(chk, fb, fns):
    n = 0
    for f in fns:
        for t in f.all_nodes():
            if t["k"] == "CXXThrowExpr" and not t.get("rethrow"):
                n += 1
                ty = (t.get("thrown") or "").replace("const ", "")
                if ty in fb.classes and fb.derives_from(ty, "bpp::Exception"):
                    chk.proved("D5", f.key, "throw-type", f.loc(t), ty)
                else:
                    chk.refuted("D5", f.key, "throw-type:" + ty, f.loc(t), "throws a '%s', not the library's exception type" % ty)
    chk.floor("D5", "explicit throws", n, 80)


def instantiations(fb, headers):
    return ""


def run(chk, fb, tier):
    chk.rule("D1", "a std::string search result on caller-supplied text is compared with npos (or is find+1) on every path before it is used as substr/erase/insert position, index, or iterator offset")
    chk.rule("D2", "'c.size() - k' (unsigned) as loop bound/index on a caller-supplied or possibly-empty member container needs a dominating non-emptiness guard")
    chk.rule("D3", "no loop has a feasible state-preserving cycle (exception edges included); no loop progresses only by 's.size()' of a caller-supplied string found with find(s, pos) without a non-empty guard")
    chk.rule("D4", "integral / and % by a parameter need a dominating non-zero guard")
    chk.rule("D5", "explicit throw operands derive from bpp::Exception")
    fns = _fns(fb)
    chk.floor("D1", "functions in the anchored units", len(fns), 150)
    _d1(chk, fb, fns)
    _d2(chk, fb, fns)
    _d2b(chk, fb, fns)
    _d3(chk, fb, fns)
    _d4(chk, fb, fns)
    _d5(chk, fb, fns)
    chk.assume("std::string::operator[](size()) and substr(size()) are defined; a count argument larger than the remainder is clamped")
    chk.assume("members listed in MAY_BE_EMPTY_MEMBERS can be left empty by a public constructor (read once by hand)")
