"""Shared rule: a class with a user-provided copy constructor and copy assignment copies the same state in both.

 (a) every data member that one of the two copies from the source is copied by the other as well (initialiser list, body
     assignments, or a clone/reset from the source's member);
 (b) a base class copied by the copy constructor is assigned by operator= (Base::operator=) and vice versa;
 (c) operator= that re-populates a member container element by element (push_back / insert / emplace / indexed store) first
     empties it or sizes it from the source: otherwise elements of the previous value survive;
 (d) copy functions of a container of shared pointers never assign THROUGH a stored pointer (that writes into an object
     another owner may share).
Used by the rule modules of the properties whose anchors contain such classes."""
from .facts import kids, strip, walk, is_call, render


def _mentions(node, name, inits=None, depth=0):
    """does the expression name `name`, directly or through a local initialised from an expression that does"""
    for x in walk(node):
        if x["k"] == "DeclRefExpr":
            if x["decl"]["name"] == name:
                return True
            if inits is not None and depth < 3 and x["decl"].get("kind") == "local" and x["decl"]["id"] in inits and _mentions(inits[x["decl"]["id"]], name, inits, depth + 1):
                return True
    return False


def _field_of(n):
    """name of the data member (of *this) that expression n designates at its root, or None"""
    n = strip(n)
    while n is not None:
        if n["k"] == "MemberExpr" and n["member"]["kind"] == "field":
            if n["member"].get("this"):
                return n["member"]["name"]
            n = strip(kids(n)[0]) if kids(n) else None
            continue
        if is_call(n) and n["callee"]["name"] in ("operator[]", "operator*", "operator->", "at", "get") and "obj" in n:
            return None
        return None
    return None


def copied_members(f, own, src, fb=None, depth=0):
    """members of *this that function f (copy ctor or operator=) sets from the source object `src`"""
    out = set()
    from .facts import local_inits
    li = local_inits(f)
    # a copy constructor written as 'default-construct, then *this = src' (or any call of the class's own copy assignment on the
    # source) copies what that assignment copies
    if fb is not None and depth < 2:
        for c in f.calls():
            if c["callee"]["name"] == "operator=" and c["callee"].get("cls") == f.cls and f.args(c) and _mentions(f.args(c)[0], src) and ("obj" not in c or strip(f.obj(c))["k"] in ("CXXThisExpr", "UnaryOperator")):
                for t in fb.targets(c, static_type_only=True):
                    if t.body is not None and t.key != f.key and t.params:
                        out |= copied_members(t, own, t.params[0]["name"], fb, depth + 1)
    for i in f.rec.get("inits", []):
        if i.get("fname") and i.get("written") and i.get("expr") is not None:
            e = f.nodes.get(i["expr"]) if isinstance(i["expr"], int) else i["expr"]
            if e is not None and _mentions(e, src):
                out.add(i["fname"])
    for n in f.all_nodes():
        tgt = None
        rhs = None
        if n["k"] == "BinaryOperator" and n["op"] == "=":
            tgt, rhs = kids(n)[0], kids(n)[1]
        elif is_call(n) and n["callee"]["name"] in ("operator=", "reset", "assign", "swap") and "obj" in n and f.args(n):
            tgt, rhs = f.obj(n), f.args(n)[0]
        if tgt is None:
            continue
        t = strip(tgt)
        nm = None
        if t["k"] == "MemberExpr" and t["member"]["kind"] == "field" and t["member"].get("this"):
            nm = t["member"]["name"]
        if nm in own and _mentions(rhs, src, li):
            out.add(nm)
    # a standard algorithm that writes into a member's range (or through an inserter on it) while reading the source
    for n in f.all_nodes():
        if is_call(n) and n["callee"]["qname"].startswith("std::") and n["callee"]["name"] in ("transform", "copy", "copy_n", "copy_if", "fill", "generate", "for_each", "move") and _mentions(n, src):
            for a in f.args(n):
                for x in walk(a):
                    if x["k"] == "MemberExpr" and x["member"]["kind"] == "field" and x["member"].get("this") and x["member"]["name"] in own:
                        out.add(x["member"]["name"])
    # element-wise re-population from the source: loops that push into / index a member while reading the source
    for n in f.all_nodes():
        if is_call(n) and n["callee"]["name"] in ("push_back", "emplace_back", "insert", "emplace", "operator[]") and "obj" in n:
            t = strip(f.obj(n))
            if t["k"] == "MemberExpr" and t["member"]["kind"] == "field" and t["member"].get("this") and t["member"]["name"] in own:
                st = n
                for a in f.ancestors(n):
                    if a["k"] in ("ForStmt", "CXXForRangeStmt", "WhileStmt", "BinaryOperator", "CompoundStmt"):
                        st = a
                        if a["k"] != "CompoundStmt":
                            break
                if _mentions(st, src):
                    out.add(t["member"]["name"])
    return out


def copy_modes(f, member, src):
    """how f takes `member` from the source: {'clone'} (a new object: clone()/new/make_shared/make_unique of the source's member),
    {'share'} (the source's pointer itself), both, or empty when the form is not read"""
    out = set()

    def mode(e):
        e0 = strip(e)
        if e0 is None or not _mentions(e0, src):
            return
        if any(is_call(x) and (x["callee"]["name"] in ("clone", "make_shared", "make_unique") or x["k"] == "CXXNewExpr") for x in walk(e0)) or any(x["k"] == "CXXNewExpr" for x in walk(e0)):
            out.add("clone")
        else:
            t = render(e0)
            if t.endswith("." + member) or t.endswith("->" + member) or ("." + member + ")") in t:
                out.add("share")
    for i in f.rec.get("inits", []):
        if i.get("fname") == member and i.get("expr") is not None:
            mode(f.nodes.get(i["expr"]) if isinstance(i["expr"], int) else i["expr"])
    for n in f.all_nodes():
        tgt = rhs = None
        if n["k"] == "BinaryOperator" and n["op"] == "=":
            tgt, rhs = kids(n)[0], kids(n)[1]
        elif is_call(n) and n["callee"]["name"] in ("operator=", "reset") and "obj" in n and f.args(n):
            tgt, rhs = f.obj(n), f.args(n)[0]
        if tgt is not None and _field_of(tgt) == member:
            mode(rhs)
    return out


def base_copies(f, src, bases):
    """base classes that f copies from src: initialiser 'Base(src)' or call 'Base::operator=(src)'"""
    out = set()
    for i in f.rec.get("inits", []):
        if i.get("base") and i.get("expr") is not None:
            e = f.nodes.get(i["expr"]) if isinstance(i["expr"], int) else i["expr"]
            if e is not None and _mentions(e, src):
                out.add(str(i.get("base")))
    for n in f.calls():
        if n["callee"]["name"] == "operator=" and n["callee"].get("cls") in bases and f.args(n) and _mentions(f.args(n)[0], src):
            out.add(n["callee"]["cls"])
    return out


def check(chk, fb, rid, select, floor=1, skip=()):
    """select(class record) -> bool chooses the classes; returns number of classes examined"""
    n = 0
    for cls in sorted(fb.classes):
        c = fb.classes[cls]
        if c.get("dependent") or cls in skip or not select(c):
            continue
        short = cls.split("::")[-1].split("<")[0]
        cc = [f for f in fb.q(cls + "::" + short) if f.rec.get("copyctor") and f.body is not None]
        ca = [f for f in fb.q(cls + "::operator=") if f.rec.get("copyassign") and f.body is not None]
        own = {fl["name"] for fl in c["fields"]}
        if (cc and not ca) or (ca and not cc):
            # one of the two is compiler-generated (= default or implicit): it copies every member; the user-provided one must too
            n += 1
            U = (cc or ca)[0]
            got = copied_members(U, own, U.params[0]["name"], fb) & own
            inited = {i.get("fname") for i in U.rec.get("inits", []) if i.get("fname") and i.get("written")}
            missing = sorted(own - got - (inited if cc else set()))
            if missing and ca:
                chk.refuted(rid, U.key, "assign-copies:" + ",".join(missing), U.loc(),
                            "%s::operator= does not copy member(s) %s while the copy constructor is compiler-generated and copies every member" % (short, missing),
                            witness={"history": "two objects in different states, a = b, then use a"})
            else:
                chk.proved(rid, U.key, "copy-assign-agree", U.loc(), "the other copy function is compiler-generated; this one copies %s" % sorted(got))
            continue
        if not cc or not ca:
            continue
        n += 1
        K, A = cc[0], ca[0]
        sk, sa = K.params[0]["name"], A.params[0]["name"]
        in_k, in_a = copied_members(K, own, sk, fb) & own, copied_members(A, own, sa, fb) & own
        only_k, only_a = sorted(in_k - in_a), sorted(in_a - in_k)
        if only_k:
            chk.refuted(rid, A.key, "assign-copies:" + ",".join(only_k), A.loc(),
                        "%s::operator= does not copy member(s) %s that the copy constructor copies: after 'a = b' the object mixes its own old state with the source's" % (short, only_k),
                        witness={"history": "two objects in different states, a = b, then use a"})
        elif only_a:
            chk.refuted(rid, K.key, "ctor-copies:" + ",".join(only_a), K.loc(), "the copy constructor of %s does not copy member(s) %s that operator= copies" % (short, only_a),
                        witness={"history": "copy-construct from an object in a non-default state"})
        else:
            chk.proved(rid, A.key, "copy-assign-agree", A.loc(), "copy constructor and operator= copy the same members %s" % sorted(in_k))
        # (e) owning pointers: the two copy functions agree on clone versus share
        for fl in c["fields"]:
            if fl["name"] not in (in_k & in_a) or not any(t in fl.get("ty", "") for t in ("shared_ptr", "unique_ptr")):
                continue
            mk, ma = copy_modes(K, fl["name"], sk), copy_modes(A, fl["name"], sa)
            if mk == {"clone"} and ma == {"share"}:
                chk.refuted(rid, A.key, "assign-clones:" + fl["name"], A.loc(),
                            "%s::operator= takes the source's pointer '%s' itself while the copy constructor clones the object: after 'a = b' the two objects share one %s and a change made through one shows in the other" % (
                                short, fl["name"], fl["ty"].split("<")[-1].split(">")[0].split("::")[-1]),
                            witness={"history": "a = b; modify the member through b; observe a"})
            elif mk == {"share"} and ma == {"clone"}:
                chk.refuted(rid, K.key, "ctor-clones:" + fl["name"], K.loc(),
                            "the copy constructor of %s takes the source's pointer '%s' itself while operator= clones the object: a copy shares state with its source" % (short, fl["name"]),
                            witness={"history": "copy-construct; modify the member through the source; observe the copy"})
            elif mk and mk == ma:
                chk.proved(rid, A.key, "copy-mode:" + fl["name"], A.loc(), "both copy functions %s '%s'" % ("clone" if mk == {"clone"} else "share", fl["name"]))
        # (f) the same fix-up work in both: a mutator applied inside a loop (re-targeting listeners, re-binding observers) runs over
        # the same container in the copy constructor and in operator=
        from .c02 import _loop_range

        def fixups(fn):
            out = {}
            for x in fn.calls():
                nm = x["callee"]["name"]
                if not (nm.startswith(("add", "remove", "set", "register", "unregister")) and x["callee"].get("inrepo")):
                    continue
                lp = fn.enclosing(x, ("ForStmt", "CXXForRangeStmt", "WhileStmt"))
                if lp is None:
                    continue
                inner = lp
                r = _loop_range(fn, inner, None)
                if r[0] == "whole":
                    out.setdefault(nm, set()).add(r[1].replace("this.", "").replace("this->", ""))
                else:
                    m_ = __import__("re").search(r"< ([\w\.\(\)_>-]+?)(\.size\(\))?\)$", r[1])
                    out.setdefault(nm, set()).add(m_.group(1).replace("this.", "") if m_ else "?" + r[1][:40])
            return out
        fk, fa = fixups(K), fixups(A)
        for nm in sorted(set(fk) & set(fa)):
            if any(x.startswith("?") for x in fk[nm] | fa[nm]):
                continue
            norm = lambda S: {x.replace(sk + ".", "<src>.").replace(sa + ".", "<src>.") for x in S}
            if norm(fk[nm]) != norm(fa[nm]):
                chk.refuted(rid, K.key, "fixup-range:" + nm, K.loc(),
                            "the copy constructor of %s applies %s() over %s while operator= applies it over %s: the two copy functions do the same fix-up on different sets of elements, so one of them leaves elements pointing at the source object" % (
                                short, nm, sorted(fk[nm]), sorted(fa[nm])),
                            witness={"history": "copy-construct and assign from the same source; compare which elements were re-targeted"})
            else:
                chk.proved(rid, A.key, "fixup-range:" + nm, A.loc(), "%s() runs over %s in both copy functions" % (nm, sorted(fa[nm])))
        # (g) re-binding to the new owner: 'member->setX(this)' made by one copy function is made by the other as well (a cloned helper
        # object that keeps pointing at the source object polls / notifies the wrong owner)
        def rebinds(fn):
            out = set()
            for x in fn.calls():
                if "obj" in x and any(strip(a)["k"] == "CXXThisExpr" for a in fn.args(x)):
                    fld = _field_of(fn.obj(x))
                    if fld is None:
                        o = strip(fn.obj(x))
                        while o is not None and is_call(o) and o["callee"]["name"] in ("operator->", "operator*", "get") and "obj" in o:
                            o = strip(fn.obj(o))
                        fld = _field_of(o) if o is not None else None
                    if fld in own:
                        out.add((fld, x["callee"]["name"]))
            return out
        rk, ra = rebinds(K), rebinds(A)
        for fld, meth in sorted(rk ^ ra):
            who, other = (A, "the copy constructor") if (fld, meth) in rk else (K, "operator=")
            chk.refuted(rid, who.key, "rebind:%s.%s" % (fld, meth), who.loc(),
                        "%s re-binds the copied '%s' to the new object with %s(this); %s of %s does not: its '%s' keeps referring to the object it was copied from" % (
                            other, fld, meth, "operator=" if who is A else "the copy constructor", short, fld),
                        witness={"history": "copy the object, then use the copy while the original changes (or is destroyed)"})
        for fld, meth in sorted(rk & ra):
            chk.proved(rid, A.key, "rebind:%s.%s" % (fld, meth), A.loc(), "both copy functions call %s->%s(this)" % (fld, meth))
        # (c) re-population without reset
        for fld in sorted(own):
            pushes = [x for x in A.calls() if x["callee"]["name"] in ("push_back", "emplace_back", "insert", "emplace") and "obj" in x and render(A.obj(x)) == fld]
            stores = []
            for x in A.all_nodes():
                if x["k"] == "BinaryOperator" and x["op"] == "=":
                    t = strip(kids(x)[0])
                    if is_call(t) and t["callee"]["name"] == "operator[]" and "obj" in t and render(A.obj(t)) == fld and A.enclosing(x, ("ForStmt", "WhileStmt", "CXXForRangeStmt")) is not None:
                        stores.append(x)
            if not pushes and not stores:
                continue
            resets = [x for x in A.calls() if "obj" in x and render(A.obj(x)) == fld and x["callee"]["name"] in ("clear", "resize", "assign", "operator=", "swap")]
            helper = [x for x in A.calls() if x["callee"]["name"] in ("clear_", "clear", "reset_", "deleteAll_") and "obj" not in x or (is_call(x) and x["callee"]["name"].startswith("clear") and strip(A.obj(x))["k"] == "CXXThisExpr" if "obj" in x else False)]
            whole = [x for x in A.all_nodes() if x["k"] == "BinaryOperator" and x["op"] == "=" and render(kids(x)[0]) == fld]
            first = (pushes + stores)[0]
            cfg = A.cfg
            ok = False
            for r in resets + helper + whole:
                rb, fb_ = cfg.stmt_block(r), cfg.stmt_block(first)
                if rb is not None and fb_ is not None and (cfg.dominates(rb, fb_)):
                    ok = True
            construct = "assign-resets:" + fld
            # ... and on every path to the normal exit, not only in front of the re-population: an early 'return *this' taken for
            # some sources (an empty one) leaves the old elements in place.  The self-assignment test is the one legitimate early exit
            skipped = None
            if ok:
                from . import e1 as _e1
                rblocks = {cfg.stmt_block(r) for r in resets + helper + whole if cfg.stmt_block(r) is not None}
                selfedges = set()
                for b_ in cfg.blocks:
                    for s_ in cfg.succ[b_]:
                        for t_, tr_, nd_ in _e1.edge_facts(cfg, b_, s_):
                            if "this" in t_ and "&" in t_ and (("==" in t_ and tr_) or ("!=" in t_ and tr_ is False)):
                                selfedges.add((b_, s_))

                class _V:
                    pass
                view = _V()
                view.entry, view.exit, view.blocks = cfg.entry, cfg.exit, cfg.blocks
                view.succ = {b_: [s_ for s_ in cfg.succ[b_] if (b_, s_) not in selfedges] for b_ in cfg.succ}
                view.is_throw_block = cfg.is_throw_block
                try:
                    okp, path = _e1.must_pass(view, rblocks)
                except Exception:
                    okp, path = True, None
                if not okp:
                    skipped = path
            if ok and skipped is not None:
                rets = [x for x in walk(A.body) if x["k"] == "ReturnStmt" and cfg.stmt_block(x) in (skipped or [])]
                chk.refuted(rid, A.key, construct, A.loc(rets[0]) if rets else A.loc(),
                            "%s::operator= can return without emptying '%s' (an early exit that is not the self-assignment test): for such a source the target keeps its old elements and is not equal to what was assigned" % (short, fld),
                            witness={"history": "assign an empty object to a non-empty one", "blocks": skipped})
            elif ok:
                chk.proved(rid, A.key, construct, A.loc(first), "%s is emptied / sized from the source before it is re-populated" % fld)
            else:
                chk.refuted(rid, A.key, construct, A.loc(first), "%s::operator= re-populates '%s' element by element without first emptying it or sizing it from the source: entries of the previous value survive the assignment" % (short, fld),
                            witness={"history": "assign a shorter object into a longer one"})
        # (h) self-assignment: operator= that empties a member and then re-populates it from the same member of its argument reads
        # what it has just emptied when the argument is the object itself; it needs the self test in front (or the copy first)
        cfgA = A.cfg
        selftest = set()
        for b_ in cfgA.blocks:
            for s_ in cfgA.succ[b_]:
                for t_, tr_, nd_ in __import__("bppverif.e1", fromlist=["e1"]).edge_facts(cfgA, b_, s_):
                    if "this" in t_ and "&" in t_ and (("!=" in t_ and tr_) or ("==" in t_ and tr_ is False)):
                        selftest.add((b_, s_))
        for fld in sorted(own):
            empt = [x for x in A.calls() if "obj" in x and render(A.obj(x)) == fld and x["callee"]["name"] in ("clear", "reset") and not A.args(x)]
            empt += [x for x in A.calls() if x["callee"]["name"] in ("clear_", "deleteAll_", "reset_") and ("obj" not in x or strip(A.obj(x))["k"] == "CXXThisExpr")
                     and any(y["callee"]["name"] in ("clear", "erase", "resize") and "obj" in y and render(t_.obj(y)) == fld for t_ in fb.targets(x) if t_.body is not None for y in t_.calls())]
            if not empt:
                continue
            reads = [x for x in A.all_nodes() if x["k"] == "MemberExpr" and x["member"]["name"] == fld and not x["member"].get("this") and kids(x) and render(kids(x)[0]) == sa]
            later = [x for x in reads if any(cfgA.stmt_block(e_) is not None and cfgA.stmt_block(x) is not None and (cfgA.dominates(cfgA.stmt_block(e_), cfgA.stmt_block(x))) for e_ in empt)]
            if not later:
                continue
            from . import e1 as _e1
            guarded = all(_e1.guarded_by(cfgA, cfgA.stmt_block(e_), lambda facts: any("this" in t_ and "&" in t_ and (("!=" in t_ and tr_) or ("==" in t_ and tr_ is False)) for t_, tr_, _ in facts))[0] for e_ in empt)
            con = "self-assignment:" + fld
            if guarded:
                chk.proved(rid, A.key, con, A.loc(empt[0]), "'%s' is emptied only after the self-assignment test" % fld)
            else:
                chk.refuted(rid, A.key, con, A.loc(empt[0]),
                            "%s::operator= empties '%s' and then re-populates it from %s.%s with no self-assignment test in front: for 'x = x' the source has just been emptied, so the object loses its %s" % (short, fld, sa, fld, fld),
                            witness={"history": "x = x on a non-empty object"})
        # (d) writes through stored shared pointers
        for g in (K, A):
            for x in g.all_nodes():
                t = None
                if x["k"] == "BinaryOperator" and x["op"] == "=":
                    t = strip(kids(x)[0])
                elif is_call(x) and x["callee"]["name"] == "operator=" and "obj" in x:
                    t = strip(g.obj(x))
                if t is None:
                    continue
                # *member[i] = ...   (deref of an element of a member container of smart pointers)
                if (t["k"] == "UnaryOperator" and t.get("op") == "*") or (is_call(t) and t["callee"]["name"] == "operator*"):
                    inner = strip(kids(t)[0]) if t["k"] == "UnaryOperator" else strip(g.obj(t))
                    if is_call(inner) and inner["callee"]["name"] in ("operator[]", "at") and "obj" in inner:
                        o = strip(g.obj(inner))
                        if o["k"] == "MemberExpr" and o["member"].get("this") and o["member"]["name"] in own and "shared_ptr" in (o.get("ty") or ""):
                            chk.refuted(rid, g.key, "writes-through:" + o["member"]["name"], g.loc(x),
                                        "%s assigns through a stored shared pointer (%s): the pointee may be shared with another owner (a list this one was shared from), which is silently overwritten" % (
                                            g.name, render(t)), witness={"history": "view = big.shareSubList(..); view = other; inspect big"})
    chk.floor(rid, "classes with user copy constructor and copy assignment", n, floor)
    return n
