"""C04 Matrix operations match their definitions for every shape and storage layout (dimension clauses only).

 D1 dimension typing of every kernel (E2): every M(i,j) / v[i] of every MatrixTools template (instantiated) stays inside the
    dimensions established by resize / guards; non-conformable operands hit a guard
 D2 storage classes agree: const and non-const operator() of RowMatrix / ColMatrix / LinearMatrix use the same index expression,
    and resize_ keeps the row/column counters in step with the storage (LinearMatrix)
 D3 no implicit floating -> integral narrowing inside the kernels
 D4 extremum searches start from -inf / +inf; accumulating kernels reset their output entry before accumulating
"""
import os
from .facts import kids, strip, walk, is_call, render, local_inits, AnalysisBroken
from . import e1, umbrella

NEEDS_VT = True
EXPLANATION = ("Static analysis of the dimension/shape clauses of C04 on every function template of MatrixTools (46, instantiated for RowMatrix<double> via a generated umbrella unit): D1 symbolic index-bound "
               "analysis (E2): index upper bounds and container dimensions are polynomials over size symbols; facts come from throwing guards and resize calls; PROVED when the bound is below the "
               "dimension symbolically, REFUTED only with a witness shape (a valuation of the size symbols satisfying every guard); D2 the three storage classes use one index expression per class in the "
               "const and non-const accessor and LinearMatrix::resize_ updates rows_/cols_ on every path; D3 no FloatingToIntegral implicit cast in the kernels; D4 reductions start from the right "
               "identity element and products zero their output entry first. NOT decided: the values (sums of products), Kronecker/Hadamard values, optimality and dual certificate of the assignment solver.")

MT = "bpp::MatrixTools"
DONE = []
KNOWN_SKIPS = {}


def instantiations(fb, headers):
    hs = ["Bpp/Numeric/Matrix/MatrixTools.h"]
    ts = umbrella.list_templates(fb.scratch, fb.src, hs)
    txt, done = umbrella.instantiate_function_templates(ts, MT, umbrella.TABLE_DEFAULT)
    DONE[:] = done
    s = txt
    s += "template class bpp::RowMatrix<double>;\ntemplate class bpp::ColMatrix<double>;\ntemplate class bpp::LinearMatrix<double>;\n"
    return s


def _kernels(fb):
    return [f for f in fb.concrete_fns() if f.cls == MT and f.body is not None and f.cfg is not None and f.rec.get("inst")]


def _d1(chk, fb):
    from . import e2
    ks = _kernels(fb)
    chk.floor("D1", "instantiated MatrixTools kernels", len(ks), 44)
    n_sites = 0
    for f in sorted(ks, key=lambda x: x.key):
        if f.name in KNOWN_SKIPS:
            continue
        seen = set()
        for c, ctext, itext, dimk, verdict, detail, wit in e2.analyse(fb, f):
            n_sites += 1
            construct = "%s(%s):%s" % (ctext, itext, dimk)
            if (construct, verdict) in seen:
                continue
            seen.add((construct, verdict))
            short = f.qname.split("::")[-1]
            if verdict == "PROVED":
                chk.proved("D1", f.key, construct, f.loc(c), detail)
            elif verdict == "REFUTED":
                chk.refuted("D1", f.key, construct, f.loc(c),
                            "%s: %s index '%s' of %s is not bounded by the matrix' %s on a shape the guards allow: %s" % (short, dimk, itext, ctext, dimk, detail),
                            witness={"shape": wit})
            else:
                chk.unknown("D1", f.key, construct, f.loc(c), detail)
    chk.floor("D1", "element-access sites in MatrixTools", n_sites, 250)


def _d2(chk, fb):
    for cls, want in (("bpp::RowMatrix<double>", "m_[i][j]"), ("bpp::ColMatrix<double>", "m_[j][i]"), ("bpp::LinearMatrix<double>", None)):
        fb.need_class(cls)
        ops = [f for f in fb.q(cls + "::operator()") if len(f.params) == 2]
        if len(ops) != 2:
            raise AnalysisBroken("anchor vanished: const and non-const %s::operator()" % cls)
        exprs = []
        for f in ops:
            r = [n for n in walk(f.body) if n["k"] == "ReturnStmt"]
            exprs.append(render(kids(r[0])[0]) if r else "?")
        if exprs[0] == exprs[1]:
            chk.proved("D2", ops[0].key, "accessors-agree", ops[0].loc(), "both accessors return %s" % exprs[0])
        else:
            chk.refuted("D2", ops[0].key, "accessors-agree", ops[0].loc(), "const and non-const operator() of %s address different elements: %s vs %s" % (cls.split("::")[-1], exprs[0], exprs[1]))
    # nested layouts: the outer vector is the one whose size the class reports as its row (RowMatrix) / column (ColMatrix)
    # count; accessor and resize must index / size the outer level with that coordinate
    for cls in ("bpp::RowMatrix<double>", "bpp::ColMatrix<double>"):
        ret = {}
        for g in ("getNumberOfRows", "getNumberOfColumns"):
            fs = [f for f in fb.q(cls + "::" + g) if f.body is not None]
            if not fs:
                raise AnalysisBroken("anchor vanished: %s::%s" % (cls, g))
            r = [n for n in walk(fs[0].body) if n["k"] == "ReturnStmt"]
            ret[g] = render(kids(r[0])[0]) if r else "?"
        outer = [g for g in ret if ret[g] == "m_.size()"]
        if len(outer) != 1:
            chk.unknown("D2", cls, "layout", "", "cannot tell the outer dimension from %s" % ret)
            continue
        k = 0 if outer[0] == "getNumberOfRows" else 1
        for f in [x for x in fb.q(cls + "::operator()") if len(x.params) == 2]:
            pn = [p_["name"] for p_ in f.params]
            r = [n for n in walk(f.body) if n["k"] == "ReturnStmt"]
            t = render(kids(r[0])[0]) if r else "?"
            want = "m_[%s][%s]" % (pn[k], pn[1 - k])
            if t == want:
                chk.proved("D2", f.key, "layout-accessor", f.loc(), "%s with %s = m_.size()" % (t, outer[0]))
            else:
                chk.refuted("D2", f.key, "layout-accessor", f.loc(), "%s reports m_.size() as %s but its accessor returns %s instead of %s: on a non-square matrix the element is read from the wrong place / out of range" % (
                    cls.split("::")[-1], outer[0], t, want), witness={"shape": "2x3"})
        for f in [x for x in fb.q(cls + "::resize") if len(x.params) == 2 and x.body is not None]:
            pn = [p_["name"] for p_ in f.params]
            rs = [c for c in f.calls() if c["callee"]["name"] == "resize" and "obj" in c]
            o = [render(f.args(c)[0]) for c in rs if render(f.obj(c)) == "m_"]
            inn = [render(f.args(c)[0]) for c in rs if render(f.obj(c)).startswith("m_[")]
            # 'for (auto& row : m_) row.resize(n)' sizes the inner level as well
            for c in rs:
                ob = strip(f.obj(c))
                if ob["k"] == "DeclRefExpr":
                    lp = f.enclosing(c, ("CXXForRangeStmt",))
                    ri = (f.nodes.get(lp["rangeinit"]) if isinstance(lp.get("rangeinit"), int) else lp.get("rangeinit")) if lp else None
                    if ri is not None and render(ri).replace("this.", "") == "m_":
                        inn.append(render(f.args(c)[0]))
            # every normal path sizes the inner level: the loop that does it is on every path from entry to exit
            inner_calls = [c for c in rs if render(f.obj(c)).startswith("m_[") or strip(f.obj(c))["k"] == "DeclRefExpr"]
            heads = set()
            for c in inner_calls:
                lp = f.enclosing(c, ("ForStmt", "CXXForRangeStmt", "WhileStmt"))
                if lp is not None:
                    hb = f.cfg.stmt_block(f.nodes[lp["cond"]]) if lp.get("cond") is not None else None
                    if hb is None:
                        hb = next((b for b, blk in f.cfg.blocks.items() if blk.get("term") == lp["id"]), None)
                    if hb is not None:
                        heads.add(hb)
            skipped = None
            if heads:
                okp, path = e1.must_pass(f.cfg, heads)
                if not okp:
                    skipped = path
            if o == [pn[k]] and inn and all(x == pn[1 - k] for x in inn) and skipped is not None:
                rets = [n for n in walk(f.body) if n["k"] == "ReturnStmt"]
                chk.refuted("D2", f.key, "layout-resize", f.loc(rets[0]) if rets else f.loc(),
                            "%s::resize can return after sizing the outer level without sizing the inner vectors: newly added %s stay empty while the matrix reports the new shape" % (
                                cls.split("::")[-1], "columns" if k == 1 else "rows"), witness={"shape": "1x1 resized to 1x2", "blocks": skipped})
            elif o == [pn[k]] and inn and all(x == pn[1 - k] for x in inn):
                chk.proved("D2", f.key, "layout-resize", f.loc(), "outer level sized by %s, inner by %s" % (pn[k], pn[1 - k]))
            elif not o or not inn or any(x not in pn for x in o + inn):
                chk.unknown("D2", f.key, "layout-resize", f.loc(), "resize not in a recognised form (outer %s, inner %s)" % (o, inn))
            else:
                chk.refuted("D2", f.key, "layout-resize", f.loc(), "%s::resize sizes the outer level with %s and the inner with %s; the class reports m_.size() as %s, so it should be %s / %s" % (
                    cls.split("::")[-1], o, inn, outer[0], pn[k], pn[1 - k]), witness={"shape": "2x3"})
    # LinearMatrix: resize_ writes rows_ and cols_ on every normal path
    LM = "bpp::LinearMatrix<double>"
    for f in fb.q(LM + "::resize_"):
        cfg = f.cfg
        for fld in ("rows_", "cols_"):
            ws = [n for n in walk(f.body) if n["k"] == "BinaryOperator" and n["op"] == "=" and render(kids(n)[0]) == fld]
            bl = {cfg.stmt_block(w) for w in ws}
            ok, path = e1.must_pass(cfg, bl) if bl else (False, None)
            if ok:
                chk.proved("D2", f.key, "resize-updates:" + fld, f.loc(), "%s assigned on every path" % fld)
            else:
                chk.refuted("D2", f.key, "resize-updates:" + fld, f.loc(),
                            "LinearMatrix::resize_ can return without updating %s: a flat-vector output that already holds as many elements keeps its old shape (3x2 instead of 2x3) and entries land at the wrong stride" % fld,
                            witness={"history": "a LinearMatrix that held a 3x2 result receives a 2x3 result"})
    # index expression of the linear layout is i * cols_ + j
    for f in [x for x in fb.q(LM + "::operator()") if len(x.params) == 2]:
        r = [n for n in walk(f.body) if n["k"] == "ReturnStmt"]
        t = render(kids(r[0])[0]) if r else "?"
        if t in ("m_[((i * cols_) + j)]", "m_[((cols_ * i) + j)]"):
            chk.proved("D2", f.key, "linear-layout", f.loc(), t)
        else:
            chk.refuted("D2", f.key, "linear-layout", f.loc(), "flat layout index is %s, not m_[i * cols_ + j]" % t)


def _d3(chk, fb):
    n = 0
    for f in _kernels(fb):
        for x in f.all_nodes():
            if x["k"] == "ImplicitCastExpr" and x.get("cast") == "FloatingToIntegral":
                n += 1
                par = f.parent.get(x["id"])
                chk.refuted("D3", f.key, "narrowing:" + render(x)[:40], f.loc(x), "a floating-point value (%s) is implicitly truncated to an integer inside %s" % (render(x)[:50], f.qname.split("::")[-1]))
    if n == 0:
        chk.proved("D3", MT, "no-narrowing", "", "no implicit FloatingToIntegral cast in %d kernels" % len(_kernels(fb)))


def _d4(chk, fb):
    # extremum searches: the running value starts from -inf (max) / +inf (min), i.e. std::log(0.) / -std::log(0.)
    for name, sign in (("max", "-inf"), ("whichMax", "-inf"), ("min", "+inf"), ("whichMin", "+inf")):
        for f in [x for x in _kernels(fb) if x.name == name]:
            inits = []
            for n in walk(f.body):
                if n["k"] == "DeclStmt":
                    for d in n["decls"]:
                        if d.get("init") is not None and d["ty"] in ("double", "float", "long double"):
                            inits.append((d, render(d["init"])))
            ok = False
            for d, t in inits:
                t = t.replace("std::", "").replace("0.0", "0")
                if sign == "-inf" and t in ("log(0)", "-bpp::NumConstants::INF()", "bpp::NumConstants::MINF()", "-std::numeric_limits::infinity()", "std::numeric_limits::lowest()"):
                    ok = True
                if sign == "+inf" and t in ("-log(0)", "bpp::NumConstants::INF()", "bpp::NumConstants::PINF()", "std::numeric_limits::infinity()", "std::numeric_limits::max()"):
                    ok = True
            if ok:
                chk.proved("D4", f.key, "identity-element", f.loc(), "running extremum starts at %s" % sign)
            else:
                chk.refuted("D4", f.key, "identity-element", f.loc(), "the running %s does not start from %s (initialisers: %s): matrices whose entries all lie on the other side of the start value give a wrong extremum" % (
                    "maximum" if sign == "-inf" else "minimum", sign, [t for _, t in inits]), witness={"input": "a matrix with no positive entry" if sign == "-inf" else "a matrix of very large entries"})
    # products: O(i,j) += ... must be preceded in the same loop nest by O(i,j) = 0
    for f in [x for x in _kernels(fb) if x.name == "mult"]:
        accs = [n for n in walk(f.body) if n["k"] == "CompoundAssignOperator" and n["op"] in ("+=", "-=") and is_call(strip(kids(n)[0])) and strip(kids(n)[0])["callee"]["name"] == "operator()"]
        cfg = f.cfg
        for a in accs:
            tgt = render(kids(a)[0])
            zeros = [n for n in walk(f.body) if n["k"] == "BinaryOperator" and n["op"] == "=" and render(kids(n)[0]) == tgt]
            lp = f.enclosing(a, ("ForStmt",))
            outer = f.enclosing(lp, ("ForStmt",)) if lp else None
            ok = any(outer is not None and f.contains(outer, z) and cfg.dominates(cfg.stmt_block(z), cfg.stmt_block(a)) for z in zeros)
            if ok:
                chk.proved("D4", f.key, "accumulator-reset:" + tgt, f.loc(a), "%s = 0 dominates the accumulation" % tgt)
            else:
                chk.refuted("D4", f.key, "accumulator-reset:" + tgt, f.loc(a), "%s is accumulated with '%s' without being set to 0 first in the enclosing loops: the product is added to whatever the output held" % (tgt, a["op"]),
                            witness={"history": "compute two products into the same output matrix"})


def _fwd_reaches(fun, a, b):
    """statement b can execute after statement a in the same pass (forward edges only)"""
    cfg = fun.cfg
    pos = fun._rpo()
    ba, bb = cfg.stmt_block(a), cfg.stmt_block(b)
    if ba is None or bb is None:
        return True
    if ba == bb:
        return True
    seen, todo = {ba}, [ba]
    while todo:
        x = todo.pop()
        for s_ in cfg.succ[x]:
            if s_ not in seen and pos.get(s_, -1) > pos.get(x, -1):
                if s_ == bb:
                    return True
                seen.add(s_)
                todo.append(s_)
    return False


def _coverage(chk, fb, f, fun, tgt, vname, info, S):
    """every entry of the vector operand enters the sum: on each shape of the witness grid that lets the unconditional
    statement run, the index sets of the statements that are active (their own guards hold, their loops are non-empty)
    cover [0, size). Refuted with the shape and the missing entry; the guards of every statement must be exact
    (a single path condition) for the verdict to be given."""
    from . import e2
    import itertools
    construct = "coverage:%s:%s" % (tgt, vname)
    if any(i_[3] is None or i_[5] or i_[7] for i_ in info):
        chk.unknown("D5", f.key, construct, f.loc(info[0][0]), "a statement's index or guard is not interpretable")
        return
    dimv = fun.dims(f.obj(info[0][0]), info[0][0])
    if not dimv or dimv[0] is None:
        chk.unknown("D5", f.key, construct, f.loc(info[0][0]), "size of %s unknown" % vname)
        return
    # exact path condition per site
    conds = []
    for c, idx, st, b, rels, unparsed, cl, why in info:
        inter, _ = fun.facts(c)
        if not fun.disjuncts or fun.local_atoms or len(fun.disjuncts) > 8:
            chk.unknown("D5", f.key, construct, f.loc(c), "path condition of a statement not exact")
            return
        loops = dict(cl)
        loops.update(b[2])
        conds.append(([list(dj) for dj in fun.disjuncts], loops, b[0], b[1], st, list(inter)))
    base = min(conds, key=lambda x: len(x[5]))       # the least guarded statement stands for 'the function does not throw'
    el = e2._elimination(S, base[5])
    # loops shared by every statement (the i, j nest around the accumulation), not a statement's own inner loop
    common_loops = {k_: v_ for k_, v_ in conds[0][1].items() if all(k_ in c_[1] and str(c_[1][k_]) == str(v_) for c_ in conds)}

    def red(x):
        for sym, val in el:
            x = x.subs(sym, val)
        return x
    syms = set()
    for cnd in conds:
        for dj in cnd[0]:
            for r in dj:
                syms |= red(r).free_symbols if hasattr(red(r), "free_symbols") else set()
        for a_, b_ in cnd[1].values():
            syms |= red(a_ - b_).free_symbols
        syms |= red(cnd[2] + cnd[3]).free_symbols
    syms |= red(dimv[0]).free_symbols
    syms = sorted(syms, key=str)
    if len(syms) > 6:
        chk.unknown("D5", f.key, construct, f.loc(info[0][0]), "too many size symbols")
        return
    checked = 0
    errs = []
    for vals in itertools.product(range(0, 5), repeat=len(syms)):
        env = dict(zip(syms, vals))
        try:
            if not any(all(bool(red(r).subs(env)) for r in dj) for dj in base[0]):
                continue
            if not all(int(red(v_).subs(env)) >= 0 for _, v_ in el):
                continue
            # outer loops of the base statement must run
            if not all(int(red(b_ - a_).subs(env)) > 0 for nm, (a_, b_) in common_loops.items()):
                continue
            n = int(red(dimv[0]).subs(env))
            covered = set()
            for djs, loops, lo, hi, st, _i in conds:
                if not any(all(bool(red(r).subs(env)) for r in dj) for dj in djs):
                    continue
                if not all(int(red(b_ - a_).subs(env)) > 0 for a_, b_ in loops.values()):
                    continue
                l_, h_ = int(red(lo).subs(env)), int(red(hi).subs(env))
                covered |= set(range(max(l_, 0), h_ + 1))
            checked += 1
            missing = [x for x in range(n) if x not in covered]
            if missing:
                full = e2._full_env(S, env, el)
                chk.refuted("D5", f.key, construct, f.loc(info[0][0]),
                            "%s: entry %s[%d] never enters %s on a shape the guards allow: its term is lost" % (f.name, vname, missing[0], tgt), witness={"shape": full})
                return
        except Exception as ex:
            errs.append(repr(ex)[:120])
            continue
    if errs and not checked:
        chk.unknown("D5", f.key, construct, f.loc(info[0][0]), "shape evaluation failed: %s" % errs[0])
        return
    if checked:
        chk.proved("D5", f.key, construct, f.loc(info[0][0]), "on all %d admissible shapes with sizes 0..4 every entry of %s enters %s (bounded: sizes above 4 follow the same piecewise-linear index sets)" % (checked, vname, tgt))
    else:
        chk.unknown("D5", f.key, construct, f.loc(info[0][0]), "no admissible shape on the grid")


def _d5(chk, fb):
    """a vector operand that enters one output entry through several statements (first term, interior loop, last term of the
    tridiagonal product) must be read at pairwise disjoint index sets that together cover the vector, for every shape"""
    from . import e2
    import itertools
    S = e2.sp()
    n_groups = 0
    for f in sorted(_kernels(fb), key=lambda x: x.key):
        fun = e2.Fun(fb, f)
        groups = {}
        for c, cont, idxs, kind in e2.sites(fun):
            if kind != "vector" or len(idxs) != 1:
                continue
            r = fun.root(cont)
            if r is None or r[0] != "v" or not any(p_["id"] == r[1] for p_ in f.params):
                continue
            st = None
            for a in f.ancestors(c):
                if a["k"] in ("BinaryOperator", "CompoundAssignOperator") and a.get("op") in ("=", "+=", "-="):
                    lhs = strip(kids(a)[0])
                    if is_call(lhs) and lhs["callee"]["name"] == "operator()" and f.contains(kids(a)[1], c):
                        st = a
                        break
            if st is None:
                continue
            groups.setdefault((render(kids(st)[0]), r[2]), []).append((c, idxs[0], st))
        for (tgt, vname), sites_ in sorted(groups.items()):
            if len({st["id"] for _, _, st in sites_}) < 2:
                continue
            n_groups += 1
            info = []
            for c, idx, st in sites_:
                b = fun.index_bounds(idx, c)
                rels, unparsed = fun.facts(c)
                cl, why = fun.control(c)
                info.append((c, idx, st, b, rels, unparsed, cl, why))
            dimv = fun.dims(sites_[0][0] and f.obj(sites_[0][0]), sites_[0][0])
            # pairwise disjointness
            for (a, b_) in itertools.combinations(info, 2):
                if a[2]["id"] == b_[2]["id"]:
                    continue
                construct = "partition:%s:%s[%s]|%s[%s]" % (tgt, vname, render(a[1]), vname, render(b_[1]))
                if a[3] is None or b_[3] is None:
                    chk.unknown("D5", f.key, construct, f.loc(a[0]), "index not a size/loop expression")
                    continue
                rels = list(a[4]) + [r for r in b_[4] if str(r) not in {str(x) for x in a[4]}]
                sl = e2._slacks(S, rels)
                (lo1, hi1, lp1), (lo2, hi2, lp2) = a[3], b_[3]
                g1 = e2._apply_eqs(S, lo2 - hi1 - 1, rels)
                g2 = e2._apply_eqs(S, lo1 - hi2 - 1, rels)
                if e2._nonneg_with(S, g1, sl) or e2._nonneg_with(S, g2, sl):
                    chk.proved("D5", f.key, construct, f.loc(a[0]), "index sets [%s, %s] and [%s, %s] are disjoint under the guards of both statements" % (lo1, hi1, lo2, hi2))
                    continue
                if a[5] or b_[5] or a[7] or b_[7]:
                    chk.unknown("D5", f.key, construct, f.loc(a[0]), "guards of the statements not interpretable")
                    continue
                if not (_fwd_reaches(fun, a[2], b_[2]) or _fwd_reaches(fun, b_[2], a[2])):
                    chk.proved("D5", f.key, construct, f.loc(a[0]), "the two statements lie on exclusive branches")
                    continue
                loops = dict(a[6]); loops.update(b_[6]); loops.update(lp1); loops.update(lp2)
                el = e2._elimination(S, rels)

                def red(x):
                    for sym, val in el:
                        x = x.subs(sym, val)
                    return x
                rels = [y for y in (red(r) for r in rels) if y is not S.true] + [S.Ge(val_, 0) for val_ in (red(v) for _, v in el) if not e2._nonneg_poly(S, val_)]
                loops = {k: (red(x), red(y)) for k, (x, y) in loops.items()}
                lo1, hi1, lo2, hi2 = red(lo1), red(hi1), red(lo2), red(hi2)
                syms = sorted(set().union(*[r.free_symbols for r in rels]) | set().union(*[(x - y).free_symbols for x, y in loops.values()]) |
                              (lo1 + hi1 + lo2 + hi2).free_symbols, key=str)
                wit = None
                if len(syms) <= 6:
                    for vals in itertools.product(range(0, 4), repeat=len(syms)):
                        env = dict(zip(syms, vals))
                        try:
                            if not all(bool(r.subs(env)) for r in rels):
                                continue
                            if not all((y - x).subs(env) > 0 for x, y in loops.values()):
                                continue
                            l1, h1, l2, h2 = [int(v.subs(env)) for v in (lo1, hi1, lo2, hi2)]
                        except Exception:
                            continue
                        if max(l1, l2) <= min(h1, h2):
                            wit = (env, max(l1, l2))
                            break
                if wit:
                    chk.refuted("D5", f.key, construct, f.loc(a[0]),
                                "%s: %s[%d] enters %s through two statements (lines %s and %s) on a shape the guards allow, so that term is counted twice" % (
                                    f.name, vname, wit[1], tgt, a[2].get("l"), b_[2].get("l")), witness={"shape": {str(k): int(v) for k, v in wit[0].items()}})
                else:
                    chk.unknown("D5", f.key, construct, f.loc(a[0]), "neither proved disjoint nor a doubly used entry found")
            # coverage: together the statements must read every entry of the operand (for every shape the guards allow)
            _coverage(chk, fb, f, fun, tgt, vname, info, S)
    chk.floor("D5", "vector operands read by several statements of one accumulation", n_groups, 3)


def _d6(chk, fb):
    """E7: a shortcut 'if (scalar parameters equal literals) return;' in front of an element-wise update is sound only if the
    update is the identity under those equalities (scale(A, a, b): A(i,j) = a*A(i,j) + b is the identity for a == 1 and b == 0,
    not for a == 1 alone)"""
    import sympy as sp
    n = 0
    for f in sorted(_kernels(fb), key=lambda x: x.key):
        pnames = {p_["name"] for p_ in f.params if "&" not in p_.get("ty", "") or p_["ty"].startswith("const ")}
        binit = {d["id"]: d["init"] for dn in f.all_nodes() if dn["k"] == "DeclStmt" for d in dn["decls"] if d.get("init") is not None and (d.get("ty") or "") in ("bool", "const bool")}
        for ifn in [x for x in kids(f.body) if x["k"] == "IfStmt"]:
            then = strip(f.nodes[ifn["then"]])
            if then["k"] == "CompoundStmt" and len(kids(then)) == 1:
                then = strip(kids(then)[0])
            negated = False
            if ifn.get("else") is not None:
                continue
            if then["k"] != "ReturnStmt" or kids(then):
                # the same shortcut spelled 'if (!(neutral arguments)) { update }': the update is skipped when the condition fails
                if not any(x["k"] in ("ForStmt", "WhileStmt", "CXXForRangeStmt") for x in walk(f.nodes[ifn["then"]])):
                    continue
                negated = True

            def scenarios(c):
                c = strip(c)
                if c["k"] == "BinaryOperator" and c["op"] == "&&":
                    a_, b_ = scenarios(kids(c)[0]), scenarios(kids(c)[1])
                    return None if a_ is None or b_ is None else [dict(x, **y) for x in a_ for y in b_]
                if c["k"] == "BinaryOperator" and c["op"] == "||":
                    a_, b_ = scenarios(kids(c)[0]), scenarios(kids(c)[1])
                    return None if a_ is None or b_ is None else a_ + b_
                if c["k"] == "BinaryOperator" and c["op"] == "==":
                    l_, r_ = strip(kids(c)[0]), strip(kids(c)[1])
                    for x, y in ((l_, r_), (r_, l_)):
                        if x["k"] == "DeclRefExpr" and x["decl"]["kind"] == "param" and x["decl"]["name"] in pnames and y["k"] in ("IntegerLiteral", "FloatingLiteral"):
                            return [{x["decl"]["name"]: sp.nsimplify(y["val"], rational=True)}]
                return None
            def neg_scenarios(c):
                """scenarios under which c is FALSE (the guarded update is skipped)"""
                c = strip(c)
                if c["k"] == "UnaryOperator" and c["op"] == "!":
                    return scenarios(kids(c)[0])
                if c["k"] == "DeclRefExpr" and c["decl"]["id"] in binit:
                    return neg_scenarios(binit[c["decl"]["id"]])
                if c["k"] == "BinaryOperator" and c["op"] == "||":
                    a_, b_ = neg_scenarios(kids(c)[0]), neg_scenarios(kids(c)[1])
                    return None if a_ is None or b_ is None else [dict(x, **y) for x in a_ for y in b_]
                if c["k"] == "BinaryOperator" and c["op"] == "&&":
                    a_, b_ = neg_scenarios(kids(c)[0]), neg_scenarios(kids(c)[1])
                    return None if a_ is None or b_ is None else a_ + b_
                if c["k"] == "BinaryOperator" and c["op"] == "!=":
                    l_, r_ = strip(kids(c)[0]), strip(kids(c)[1])
                    for x, y in ((l_, r_), (r_, l_)):
                        if x["k"] == "DeclRefExpr" and x["decl"]["kind"] == "param" and x["decl"]["name"] in pnames and y["k"] in ("IntegerLiteral", "FloatingLiteral"):
                            return [{x["decl"]["name"]: sp.nsimplify(y["val"], rational=True)}]
                return None
            cnode = f.nodes[ifn["cond"]]
            sc_neg = None
            if negated:
                c0 = strip(cnode)
                if c0["k"] == "UnaryOperator" and c0["op"] == "!":
                    cnode = kids(c0)[0]
                    c1 = strip(cnode)
                    if c1["k"] == "DeclRefExpr" and c1["decl"]["id"] in binit:
                        cnode = binit[c1["decl"]["id"]]
                else:
                    sc_neg = neg_scenarios(cnode)
                    if not sc_neg:
                        continue
            else:
                c1 = strip(cnode)
                if c1["k"] == "DeclRefExpr" and c1["decl"]["id"] in binit:
                    cnode = binit[c1["decl"]["id"]]
            sc = sc_neg if sc_neg else scenarios(cnode)
            if not sc:
                continue        # a shortcut on sizes / emptiness: not this rule
            # element-wise updates that follow the shortcut
            ups = []
            for x in walk(f.body):
                if x["k"] in ("BinaryOperator", "CompoundAssignOperator") and x.get("op") in ("=", "+=", "-=", "*=", "/=") and (negated or not f.contains(ifn, x)):
                    l_ = strip(kids(x)[0])
                    if is_call(l_) and l_["callee"]["name"] in ("operator()", "operator[]") and f.enclosing(x, ("ForStmt", "WhileStmt", "CXXForRangeStmt")) is not None:
                        ups.append((x, l_))
            if not ups:
                continue
            n += 1
            con = "shortcut:" + render(cnode)[:50]
            opaque = {}

            def sx(e, env, elem):
                e = strip(e)
                t = render(e)
                if t == elem:
                    return sp.Symbol("ELEM")
                k_ = e["k"]
                if k_ == "IntegerLiteral":
                    return sp.Integer(int(e["val"]))
                if k_ == "FloatingLiteral":
                    return sp.nsimplify(e["val"], rational=True)
                if k_ == "DeclRefExpr" and e["decl"]["name"] in env:
                    return env[e["decl"]["name"]]
                if k_ == "UnaryOperator" and e["op"] in ("-", "+"):
                    v = sx(kids(e)[0], env, elem)
                    return -v if e["op"] == "-" else v
                if k_ == "BinaryOperator" and e["op"] in ("+", "-", "*", "/"):
                    a_, b_ = sx(kids(e)[0], env, elem), sx(kids(e)[1], env, elem)
                    return {"+": a_ + b_, "-": a_ - b_, "*": a_ * b_, "/": a_ / b_}[e["op"]]
                return opaque.setdefault(t, sp.Symbol(t if t.isidentifier() else "o%d" % len(opaque)))
            bad = None
            for env in sc:
                for x, l_ in ups:
                    rhs = sx(kids(x)[1], env, render(l_))
                    ident = {"=": sp.Symbol("ELEM"), "+=": 0, "-=": 0, "*=": 1, "/=": 1}[x["op"]]
                    if sp.simplify(rhs - ident) != 0:
                        bad = (env, x, rhs)
                        break
                if bad:
                    break
            if bad:
                env, x, rhs = bad
                chk.refuted("D6", f.key, con, f.loc(ifn),
                            "%s returns early when %s, but under that condition '%s' is not the identity (it becomes %s): the shortcut drops the rest of the update" % (
                                f.name, " and ".join("%s == %s" % kv for kv in sorted(env.items())), render(x)[:70], str(rhs).replace("ELEM", render(strip(kids(x)[0])))[:60]),
                            witness={"input": "%s with the remaining scalar argument(s) non-neutral" % ", ".join("%s = %s" % kv for kv in sorted(env.items()))})
            else:
                chk.proved("D6", f.key, con, f.loc(ifn), "under the shortcut's condition every element update is the identity")
    chk.floor("D6", "scalar shortcuts in front of element-wise updates", n, 1)


def _d7(chk, fb):
    """output coverage: resize() keeps what the storage held (and gives new elements their default state), so a kernel that
    resizes its output and then assigns entries must assign every entry.  For every shape of a small grid on which the kernel
    does not throw, the index boxes written by the assigning statements - 'O(i, j) = ...' for a matrix output, 'vO[k] = ...' or
    vO[k] handed to another kernel as its output for a vector output - cover the whole index range.  Refuted with the shape and
    a missing entry; a kernel whose assignments sit under data tests or whose index ranges are not exact is not judged"""
    from . import e2
    import itertools
    S = e2.sp()
    n = 0
    for f in sorted(_kernels(fb), key=lambda x: x.key):
        if f.name in KNOWN_SKIPS:
            continue
        outs = [p_ for p_ in f.params if p_.get("ty", "").endswith("&") and not p_["ty"].startswith("const ") and ("Matrix" in p_["ty"] or "vector" in p_["ty"])]
        if not outs:
            continue
        fun = e2.Fun(fb, f)
        allsites = list(e2.sites(fun))
        for O in outs:
            isvec = "vector" in O["ty"]
            resized = [c for c in f.calls() if c["callee"]["name"] == "resize" and "obj" in c and render(f.obj(c)) == O["name"] and len(f.args(c)) == (1 if isvec else 2)]
            if not resized:
                continue
            info = []
            bad = None
            for c in f.calls():
                if any(render(strip(a)) == O["name"] for a in f.args(c)):
                    bad = "%s is handed to %s (%s), which may assign entries" % (O["name"], c["callee"]["name"], f.loc(c))
                    break
            for c, cont, idxs, kind in ([] if bad else allsites):
                if kind != ("vector" if isvec else "matrix") or len(idxs) != (1 if isvec else 2) or render(cont) != O["name"]:
                    continue
                # is the entry (re)initialised here?  Everything that is not provably a read counts as a write: the covered set is
                # over-estimated, so that an entry reported as missing really is written nowhere
                par = f.parent.get(c["id"])
                loaded = False
                while par is not None and par["k"] in ("ImplicitCastExpr", "ParenExpr", "MaterializeTemporaryExpr"):
                    if par["k"] == "ImplicitCastExpr" and par.get("cast") in ("LValueToRValue", "NoOp"):
                        loaded = True
                    par = f.parent.get(par["id"])
                if loaded or par is None:
                    continue
                written = True
                if par["k"] == "BinaryOperator" and par.get("op") == "=":
                    written = strip(kids(par)[0]) is strip(c)
                elif par["k"] == "CompoundAssignOperator" or (par["k"] == "BinaryOperator"):
                    written = False         # read-modify-write / operand of an expression
                elif is_call(par):
                    if "obj" in par and strip(f.obj(par)) is strip(c):
                        written = par["callee"]["name"] == "operator=" or not par["callee"].get("const")
                        if par["callee"]["name"] in ("operator+=", "operator-=", "operator*=", "operator/="):
                            written = False
                    else:
                        pt = par["callee"].get("ptypes") or []
                        written = False
                        for k_, a_ in enumerate(f.args(par)):
                            if strip(a_) is strip(c):
                                written = not (k_ < len(pt) and (pt[k_].startswith("const ") or not pt[k_].endswith("&")))
                elif par["k"] == "DeclStmt":
                    written = False
                    for d_ in par["decls"]:
                        if d_.get("init") is not None and f.contains(d_["init"], c):
                            written = (d_.get("ty") or "").endswith("&") and not d_["ty"].startswith("const ")
                if not written:
                    continue
                bs = [fun.index_bounds(ix, c) for ix in idxs]
                rels, unparsed = fun.facts(c)
                cl, why = fun.control(c)
                if any(b_ is None for b_ in bs) or unparsed or why or any(k_.startswith("~") for b_ in bs for k_ in b_[2]):
                    bad = "an assigning statement (%s) has an index range or a guard this rule cannot make exact" % f.loc(c)
                    break
                info.append((c, bs, rels, dict(cl)))
            con = "output-coverage:" + O["name"]
            if bad or not info:
                if bad:
                    n += 1
                    chk.unknown("D7", f.key, con, f.loc(resized[0]), bad)
                continue
            dims = fun.dims(f.obj(info[0][0]), info[0][0])
            nd = 1 if isvec else 2
            if not dims or any(dims[k_] is None for k_ in range(nd)) or fun.local_atoms:
                continue
            dims = list(dims[:nd])
            n += 1
            base = min(info, key=lambda x: len(x[2]))[2]
            el = e2._elimination(S, base)

            def red(x):
                for sym, val in el:
                    x = x.subs(sym, val)
                return x
            syms = set()
            for d_ in dims:
                syms |= red(d_).free_symbols
            for c, bs, rels, cl in info:
                for r in rels:
                    rr = red(r)
                    syms |= rr.free_symbols if hasattr(rr, "free_symbols") else set()
                for b_ in bs:
                    syms |= red(b_[0] + b_[1]).free_symbols
                    for a_, z_ in b_[2].values():
                        syms |= red(a_ - z_).free_symbols
                for a_, z_ in cl.values():
                    syms |= red(a_ - z_).free_symbols
            for _, v_ in el:
                syms |= red(v_).free_symbols
            syms = sorted(syms, key=str)
            if len(syms) > 5:
                chk.unknown("D7", f.key, con, f.loc(resized[0]), "too many size symbols (%d)" % len(syms))
                continue
            miss = None
            checked = 0
            try:
                for vals in itertools.product(range(0, 4), repeat=len(syms)):
                    env = dict(zip(syms, vals))
                    if not all(bool(red(r).subs(env)) for r in base):
                        continue
                    if not all(int(red(v_).subs(env)) >= 0 for _, v_ in el):
                        continue
                    shape = [int(red(d_).subs(env)) for d_ in dims]
                    if any(x <= 0 or x > 6 for x in shape):
                        continue
                    covered = set()
                    for c, bs, rels, cl in info:
                        if not all(bool(red(r).subs(env)) for r in rels):
                            continue
                        loops = dict(cl)
                        for b_ in bs:
                            loops.update(b_[2])
                        if not all(int(red(z_ - a_).subs(env)) > 0 for a_, z_ in loops.values()):
                            continue
                        rngs = [range(max(int(red(b_[0]).subs(env)), 0), int(red(b_[1]).subs(env)) + 1) for b_ in bs]
                        covered |= set(itertools.product(*rngs))
                    checked += 1
                    missing = [cell for cell in itertools.product(*[range(x) for x in shape]) if cell not in covered]
                    if missing:
                        miss = (env, shape, missing[0])
                        break
            except (TypeError, ValueError):
                if os.environ.get("BPPVERIF_DEBUG"):
                    import traceback
                    traceback.print_exc()
                chk.unknown("D7", f.key, con, f.loc(resized[0]), "bounds not evaluable on the shape grid")
                continue
            if miss:
                env, shape, cell = miss
                chk.refuted("D7", f.key, con, f.loc(resized[0]),
                            "%s resizes %s to %s for the shape %s and assigns its entries, but entry %s is assigned by no statement: it keeps whatever the output held before the call (or stays empty)" % (
                                f.name, O["name"], "x".join(str(x) for x in shape), {str(k_): v_ for k_, v_ in env.items()}, tuple(cell)),
                            witness={"shape": {str(k_): v_ for k_, v_ in env.items()}, "cell": list(cell), "history": "an output that already holds data of another shape"})
            elif checked:
                chk.proved("D7", f.key, con, f.loc(resized[0]), "on %d shapes of the grid every entry of %s is assigned" % (checked, O["name"]))
            else:
                chk.unknown("D7", f.key, con, f.loc(resized[0]), "no shape of the grid satisfies the guards")
    chk.floor("D7", "kernels that resize and fill an output", n, 6)


def run(chk, fb, tier):
    chk.rule("D1", "E2 SymBounds on every MatrixTools kernel: index bounds vs dimensions from resize/guards; witness shape required to refute")
    chk.rule("D2", "const/non-const operator() of each storage class return the same element; LinearMatrix::resize_ assigns rows_ and cols_ on every path; flat layout i*cols_+j")
    chk.rule("D3", "no implicit FloatingToIntegral cast in MatrixTools kernels")
    chk.rule("D5", "reduction index partition: a vector operand read by several statements accumulating into one output entry is read at pairwise disjoint index sets (symbolic proof under the statements' guards; witness shape to refute)")
    chk.rule("D4", "max/whichMax start from -inf, min/whichMin from +inf; mult zeroes O(i,j) before accumulating")
    _d1(chk, fb)
    _d2(chk, fb)
    _d3(chk, fb)
    _d4(chk, fb)
    _d5(chk, fb)
    chk.rule("D6", "E7: an early return guarded by equalities on scalar parameters is taken only when the element-wise update that follows is the identity under those equalities")
    _d6(chk, fb)
    chk.rule("D7", "output coverage: a kernel that resizes its output and assigns entries with '=' assigns every entry, for every shape of the witness grid on which it does not throw")
    _d7(chk, fb)
    chk.note("skipped in D1 (data-dependent indices): %s" % KNOWN_SKIPS)
    from . import argswap as _argswap
    chk.rule("DA", "argument/parameter name agreement at forwarding calls in the anchored units (same-typed parameters must not be swapped)")
    _af = ('src/Bpp/Numeric/Matrix/Matrix.h', 'src/Bpp/Numeric/Matrix/MatrixTools.h')
    _argswap.check(chk, fb, "DA", [f_ for f_ in fb.concrete_fns() if f_.body is not None and any(f_.relfile.endswith(x_) for x_ in _af)], 1)
    chk.assume("kernels are analysed for RowMatrix<double>; the Matrix interface is the same for the other storage classes (D2 checks their accessors)")
