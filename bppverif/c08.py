"""C08 Cumulative and quantile functions are proper, mutually inverse and accurate - ONE narrow clause only:
"arguments outside the domain give the documented error signal (exception or sentinel) rather than a plausible-looking number".

 D1 error sentinels are not transformed: the result of a sentinel-returning function is returned unchanged or compared with the
    sentinel before any arithmetic is applied to it
 D2 entry guards reject out-of-domain witnesses: constant propagation of documented out-of-domain arguments through the entry
    statements of each guarded function reaches the error signal
Everything numerical (range, monotonicity, identities, inverse relation, accuracy) is NOT decided.
"""
import math
import re
from .facts import kids, strip, walk, is_call, render, local_inits, AnalysisBroken
from . import e1

EXPLANATION = ("Static analysis of the error-signalling clause of C08 only: D1 sentinel sources are found structurally (functions of RandomTools returning a negative literal under a domain test at entry); "
               "at every call site the result must be returned as is, or tested against the sentinel before arithmetic; D2 for each guarded function a table of out-of-domain witness constants "
               "(negative / >1 probabilities, non-positive shapes, negative abscissae) is propagated as constants through the statements up to the first return/throw: the walk must end in the error signal, "
               "ending in ordinary computation is a refutation. NOT decided (and not claimed): range, monotonicity, identities, inverse relation and accuracy of every function: truth lies in coefficient "
               "values, series / continued-fraction switches and iteration counts, which no structural rule sees.")

RT = "bpp::RandomTools"


def _sources(fb):
    """functions returning a negative literal inside an if at their top level -> sentinel value"""
    out = {}
    for f in fb.concrete_fns():
        if f.cls != RT or f.body is None:
            continue
        for st in kids(f.body):
            if st["k"] == "IfStmt":
                then = strip(f.nodes[st["then"]])
                if then["k"] == "CompoundStmt" and len(kids(then)) == 1:
                    then = strip(kids(then)[0])
                if then["k"] == "ReturnStmt" and kids(then):
                    v = strip(kids(then)[0])
                    if v["k"] == "UnaryOperator" and v["op"] == "-" and strip(kids(v)[0])["k"] in ("IntegerLiteral", "FloatingLiteral"):
                        out[f.key] = (f, -float(strip(kids(v)[0])["val"]), st)
    # closure: a function that hands a source's result back unchanged (directly, through a local, or in one arm of ?:) is a source too
    changed = True
    while changed:
        changed = False
        for f in fb.concrete_fns():
            if f.key in out or f.body is None or not ((f.cls or "").startswith("bpp::")):
                continue
            holders = {}
            for n in f.all_nodes():
                if n["k"] == "DeclStmt":
                    for d in n["decls"]:
                        if d.get("init") is not None and is_call(strip(d["init"])) and strip(d["init"])["callee"]["key"] in out:
                            holders[d["id"]] = out[strip(d["init"])["callee"]["key"]][1]
            for r in [x for x in f.all_nodes() if x["k"] == "ReturnStmt" and kids(x)]:
                v = strip(kids(r)[0])
                cands = [v] + ([strip(kids(v)[1]), strip(kids(v)[2])] if v["k"] == "ConditionalOperator" else [])
                for c in cands:
                    if c["k"] == "DeclRefExpr" and c["decl"]["id"] in holders and f.key not in out:
                        out[f.key] = (f, holders[c["decl"]["id"]], r)
                        changed = True
    return out


def _d1(chk, fb):
    src = _sources(fb)
    chk.floor("D1", "sentinel-returning functions", len(src), 3)
    n = 0
    for g in sorted(fb.concrete_fns(), key=lambda x: x.key):
        if g.body is None:
            continue
        for c in g.calls():
            if c["callee"]["key"] not in src:
                continue
            sf, sval, _ = src[c["callee"]["key"]]
            n += 1
            # the caller is itself a guarded source and its own entry test already restricts the argument it passes on
            if g.key in src and g.key != c["callee"]["key"]:
                guard = render(g.nodes[src[g.key][2]["cond"]]) if src[g.key][2]["k"] == "IfStmt" else ""
                argn = [render(a) for a in g.args(c)]
                # ... and that guard rejects everything the callee answers with its sentinel: the callee's own entry guards,
                # constant-folded at the end points of the interval the caller's guard admits (the constants the argument is
                # compared with there) and at its middle, never reach the error signal.  (Sentinel regions of these functions
                # are tails of the argument's range: not firing at both ends and in the middle is taken as not firing between.)
                covers = None
                if argn and src[c["callee"]["key"]][2]["k"] == "IfStmt" and src[g.key][2]["k"] == "IfStmt":
                    a0 = argn[0]
                    consts = []
                    for x in walk(g.nodes[src[g.key][2]["cond"]]):
                        if x["k"] == "BinaryOperator" and x.get("op") in ("<", "<=", ">", ">="):
                            l_, r_ = strip(kids(x)[0]), strip(kids(x)[1])
                            if render(l_) == a0:
                                v_ = _try(g, r_, {})
                            elif render(r_) == a0:
                                v_ = _try(g, l_, {})
                            else:
                                v_ = None
                            if isinstance(v_, float):
                                consts.append(v_)
                    if len(consts) >= 2:
                        pts = [min(consts), max(consts), (min(consts) + max(consts)) / 2.0]
                        res_ = []
                        for v_ in pts:
                            env = {p_["id"]: (v_ if k_ == 0 else None) for k_, p_ in enumerate(sf.params)}
                            res_.append(_walk_entry(sf, env)[0])
                        covers = True if all(r_ == "passes" for r_ in res_) else (False if "signal" in res_ else None)
                if covers is None and argn and any(a and ("(%s <" % a in guard or "(%s >" % a in guard) for a in argn[:1]):
                    chk.unknown("D1", g.key, "argument-prevalidated:" + sf.name, g.loc(c), "whether the caller's entry guard (%s) excludes every argument for which %s signals is not decided" % (guard[:60], sf.name))
                    continue
                if covers and argn and any(a and ("(%s <" % a in guard or "(%s >" % a in guard) for a in argn[:1]):
                    chk.proved("D1", g.key, "argument-prevalidated:" + sf.name, g.loc(c), "'%s' is restricted by the caller's own entry guard (%s)" % (argn[0], guard[:60]))
                    continue
            # how is the result used?
            p = g.parent.get(c["id"])
            x = c
            while p is not None and p["k"] in ("ImplicitCastExpr", "ParenExpr"):
                x, p = p, g.parent.get(p["id"])
            if p is None:
                continue
            if p["k"] == "ReturnStmt":
                chk.proved("D1", g.key, "sentinel-passed:" + sf.name, g.loc(c), "result of %s returned unchanged" % sf.name)
                continue
            holder = None
            if p["k"] == "DeclStmt":
                for d in p["decls"]:
                    if d.get("init") is not None and any(y is c for y in walk(d["init"])) and strip(d["init"]) is c:
                        holder = d
            if p["k"] == "BinaryOperator" and p["op"] == "=" and strip(kids(p)[1]) is c and strip(kids(p)[0])["k"] == "DeclRefExpr":
                holder = strip(kids(p)[0])["decl"]
            if holder is not None:
                # every arithmetic use of the holder must be dominated by a test of the holder against the sentinel
                cfg = g.cfg
                hid, hname = holder["id"], holder["name"]

                def est(facts, hname=hname, sval=sval):
                    for t, tr, nd in facts:
                        nd2 = strip(nd)
                        if nd2["k"] == "BinaryOperator" and nd2["op"] in ("<", "<=") and render(kids(nd2)[1]) in ("0", "0.0") and tr is False:
                            l = strip(kids(nd2)[0])
                            if l["k"] == "BinaryOperator" and l["op"] == "=" and render(kids(l)[0]) == hname:
                                return True
                        if t in ("(%s < 0)" % hname, "(%s <= 0)" % hname, "(%s == %s)" % (hname, repr(sval)), "(%s == -1)" % hname, "(%s == -9999)" % hname, "(%s < 0.0)" % hname) and tr is False:
                            return True
                        if t in ("(%s >= 0)" % hname, "(%s > 0)" % hname, "(%s != -1)" % hname, "(%s != -9999)" % hname) and tr is True:
                            return True
                    return False
                bad = None
                src_block = cfg.stmt_block(c)
                other_defs = set()
                for w in g.all_nodes():
                    if w["k"] in ("BinaryOperator", "CompoundAssignOperator") and w.get("op") == "=" and strip(kids(w)[0])["k"] == "DeclRefExpr" and strip(kids(w)[0])["decl"]["id"] == hid and not any(y is c for y in walk(w)):
                        other_defs.add(cfg.stmt_block(w))
                for u in g.all_nodes():
                    if u["k"] == "DeclRefExpr" and u["decl"]["id"] == hid:
                        ub = cfg.stmt_block(u)
                        # only uses that the sentinel-carrying definition can reach
                        if ub != src_block and not e1.path_exists(cfg, src_block, ub, avoid_blocks=other_defs - {ub}):
                            continue
                        if ub in other_defs and ub != src_block:
                            continue
                        pu = g.parent.get(u["id"])
                        xu = u
                        while pu is not None and pu["k"] in ("ImplicitCastExpr", "ParenExpr"):
                            xu, pu = pu, g.parent.get(pu["id"])
                        if pu is not None and pu["k"] in ("BinaryOperator", "CompoundAssignOperator") and pu.get("op") in ("+", "-", "*", "/", "+=", "-=", "*=", "/="):
                            ok, _ = e1.guarded_by(cfg, cfg.stmt_block(u), est)
                            if not ok:
                                bad = pu
                if bad is not None:
                    chk.refuted("D1", g.key, "sentinel-transformed:" + sf.name, g.loc(bad), "the result of %s (sentinel %g for out-of-domain arguments) is used in '%s' without being tested first" % (sf.name, sval, render(bad)[:60]))
                else:
                    chk.proved("D1", g.key, "sentinel-checked:" + sf.name, g.loc(c), "result stored in '%s' and tested before arithmetic" % hname)
                continue
            if p["k"] in ("BinaryOperator", "CompoundAssignOperator") and p.get("op") in ("+", "-", "*", "/", "+=", "-=", "*=", "/="):
                # arithmetic applied directly: allowed only inside a conditional that tested the same call? (not in this code base)
                chk.refuted("D1", g.key, "sentinel-transformed:" + sf.name, g.loc(c),
                            "the result of %s is the error sentinel %g for an out-of-domain argument, but it is fed straight into '%s': the caller receives an ordinary-looking number instead of the documented signal" % (sf.name, sval, render(p)[:70]),
                            witness={"input": "a probability outside the working range (e.g. 0)"})
            else:
                chk.proved("D1", g.key, "sentinel-passed:" + sf.name, g.loc(c), "result used without arithmetic (%s)" % p["k"])
    chk.floor("D1", "call sites of sentinel-returning functions", n, 4)


class Unknown(Exception):
    pass


def _ev(f, n, env):
    """constant folding of an expression; raises Unknown when a non-constant is met"""
    n = strip(n)
    k = n["k"]
    if k in ("IntegerLiteral", "FloatingLiteral"):
        return float(n["val"])
    if k == "CXXBoolLiteralExpr":
        return bool(n["val"])
    if k == "DeclRefExpr":
        if n["decl"]["id"] in env:
            v = env[n["decl"]["id"]]
            if v is None:
                raise Unknown()
            return v
        raise Unknown()
    if k == "UnaryOperator":
        v = _ev(f, kids(n)[0], env)
        return {"-": lambda a: -a, "+": lambda a: a, "!": lambda a: not a}[n["op"]](v)
    if k == "BinaryOperator":
        op = n["op"]
        if op == "&&":
            a = _try(f, kids(n)[0], env)
            if a is False:
                return False
            b = _try(f, kids(n)[1], env)
            if b is False:
                return False
            if a is True and b is True:
                return True
            raise Unknown()
        if op == "||":
            a = _try(f, kids(n)[0], env)
            if a is True:
                return True
            b = _try(f, kids(n)[1], env)
            if b is True:
                return True
            if a is False and b is False:
                return False
            raise Unknown()
        a, b = _ev(f, kids(n)[0], env), _ev(f, kids(n)[1], env)
        try:
            return {"+": a + b, "-": a - b, "*": a * b, "/": a / b if b != 0 else math.inf, "<": a < b, "<=": a <= b, ">": a > b, ">=": a >= b, "==": a == b, "!=": a != b}[op]
        except KeyError:
            raise Unknown()
    if k == "ConditionalOperator":
        c = _ev(f, kids(n)[0], env)
        return _ev(f, kids(n)[1] if c else kids(n)[2], env)
    if is_call(n):
        nm = n["callee"]["name"]
        args = [_ev(f, a, env) for a in f.args(n)]
        try:
            if nm in ("fabs", "abs") and len(args) == 1:
                return abs(args[0])
            if nm == "sqrt" and len(args) == 1 and args[0] >= 0:
                return math.sqrt(args[0])
            if nm == "log" and len(args) == 1 and args[0] > 0:
                return math.log(args[0])
            if nm == "exp" and len(args) == 1:
                return math.exp(args[0])
            if nm in ("isnan",) and len(args) == 1:
                return math.isnan(args[0])
        except (ValueError, OverflowError):
            raise Unknown()
    raise Unknown()


def _try(f, n, env):
    try:
        return _ev(f, n, env)
    except Unknown:
        return None


def _is_signal(f, st):
    """if-statement whose then-branch is 'return <negative literal>' or a throw"""
    b = strip(f.nodes[st["then"]])
    if b["k"] == "CompoundStmt" and len(kids(b)) == 1:
        b = strip(kids(b)[0])
    if b["k"] == "ReturnStmt" and kids(b):
        v = strip(kids(b)[0])
        if v["k"] == "UnaryOperator" and v["op"] == "-" and strip(kids(v)[0])["k"] in ("IntegerLiteral", "FloatingLiteral"):
            return "returns " + render(v)
        return None
    if any(x["k"] == "CXXThrowExpr" for x in walk(b)) and b["k"] in ("CXXThrowExpr", "ExprWithCleanups"):
        return "throws"
    return None


def _walk_entry(f, env):
    """constant propagation through the top-level statements up to the last entry guard (an if whose then-branch is the
    error signal). ('signal', text) if a guard fires, ('passes', node) if every guard is definitely false, else ('unknown', node)"""
    top = kids(f.body)
    guards = [i for i, st in enumerate(top) if st["k"] == "IfStmt" and _is_signal(f, st)]
    if not guards:
        return ("unknown", f.body)
    undecided = None
    for i, st in enumerate(top[:guards[-1] + 1]):
        k = st["k"]
        if k == "DeclStmt":
            for d in st["decls"]:
                env[d["id"]] = _try(f, d["init"], env) if d.get("init") is not None else None
        elif k == "BinaryOperator" and st["op"] == "=":
            l = strip(kids(st)[0])
            if l["k"] == "DeclRefExpr":
                env[l["decl"]["id"]] = _try(f, kids(st)[1], env)
        elif k == "IfStmt" and i in guards:
            c = _try(f, f.nodes[st["cond"]], env)
            if c is True:
                return ("signal", _is_signal(f, st))
            if c is None:
                undecided = st
        elif k == "IfStmt":
            c = _try(f, f.nodes[st["cond"]], env)
            if c is None:
                undecided = undecided or st
            elif c:
                b = strip(f.nodes[st["then"]])
                if any(x["k"] == "ReturnStmt" for x in walk(b)):
                    return ("passes", st)      # an ordinary early return (e.g. 'if (x == 0) return 0')
    if undecided is not None:
        return ("unknown", undecided)
    return ("passes", top[guards[-1]])


# out-of-domain witnesses per function (parameter name -> constants); other parameters get an in-domain value
WITNESS = {
    "qNorm/1": ({"prob": [-0.025, 1.1, -3.0]}, {}),
    "qChisq/2": ({"prob": [-0.1, 1.1], "v": [-1.0, 0.0]}, {"prob": 0.5, "v": 3.0}),
    "incompleteGamma/3": ({"x": [-1.0], "alpha": [-1.0, 0.0]}, {"x": 1.0, "alpha": 2.0, "ln_gamma_alpha": 0.0}),
    "pGamma/3": ({"alpha": [-1.0], "beta": [-2.0]}, {"x": 1.0, "alpha": 2.0, "beta": 1.0}),
    "incompleteBeta/3": ({"x": [-0.1, 1.1], "alpha": [0.0, -1.0], "beta": [0.0, -2.0]}, {"x": 0.5, "alpha": 2.0, "beta": 3.0}),
}


def _d2(chk, fb):
    n = 0
    for key, (bad, good) in sorted(WITNESS.items()):
        name, np_ = key.split("/")
        fs = [f for f in fb.q(RT + "::" + name) if len(f.params) == int(np_)]
        if len(fs) != 1:
            raise AnalysisBroken("anchor vanished: RandomTools::%s/%s" % (name, np_))
        f = fs[0]
        pnames = [p["name"] for p in f.params]
        for pn, vals in sorted(bad.items()):
            if pn not in pnames:
                raise AnalysisBroken("anchor vanished: parameter '%s' of RandomTools::%s" % (pn, name))
            for v in vals:
                n += 1
                env = {}
                for p in f.params:
                    env[p["id"]] = v if p["name"] == pn else good.get(p["name"], None)
                res, where = _walk_entry(f, env)
                if res == "signal":
                    chk.proved("D2", f.key, "rejects:%s=%g" % (pn, v), f.loc(), "constant propagation of %s = %g reaches the error signal (%s)" % (pn, v, where))
                elif res == "passes":
                    chk.refuted("D2", f.key, "rejects:%s=%g" % (pn, v), f.loc(where),
                                "with %s = %g (outside the documented domain) the entry guards constant-fold to 'not rejected' and ordinary computation starts at %s: the caller gets a plausible-looking number instead of the error signal" % (pn, v, f.loc(where)),
                                witness={"input": "%s(%s = %g)" % (name, pn, v)})
                else:
                    chk.unknown("D2", f.key, "rejects:%s=%g" % (pn, v), f.loc(where), "guard depends on a non-constant")
    chk.floor("D2", "out-of-domain witnesses", n, 15)


def _d3(chk, fb):
    """the error signal does not depend on the other arguments: in the entry section of a function that signals out-of-domain
    arguments, no ordinary early return ('if (x == 0) return 0;') comes before a guard that signals on a DIFFERENT parameter -
    otherwise the invalid value of that parameter is answered with a plausible number whenever the first test happens to hold"""
    n = 0
    for key in sorted(WITNESS):
        name, np_ = key.split("/")
        fs = [f for f in fb.q(RT + "::" + name) if len(f.params) == int(np_)]
        if len(fs) != 1:
            continue
        f = fs[0]
        top = kids(f.body)
        guards = [i for i, st in enumerate(top) if st["k"] == "IfStmt" and _is_signal(f, st)]
        if not guards:
            continue
        pn = {p_["name"] for p_ in f.params}

        inits_ = local_inits(f)

        def mentions(node, depth=0):
            out = set()
            for x in walk(node):
                if x["k"] == "DeclRefExpr" and x["decl"]["name"] in pn and x["decl"].get("kind") == "param":
                    out.add(x["decl"]["name"])
                elif x["k"] == "DeclRefExpr" and x["decl"]["id"] in inits_ and depth < 3:
                    out |= mentions(inits_[x["decl"]["id"]], depth + 1)       # 'double p = alpha;'
            return out
        for i, st in enumerate(top[:guards[-1]]):
            if st["k"] != "IfStmt" or i in guards:
                continue
            b = strip(f.nodes[st["then"]])
            if not any(x["k"] == "ReturnStmt" for x in walk(b)):
                continue
            early = mentions(f.nodes[st["cond"]])
            later = [top[j] for j in guards if j > i]
            for gst in later:
                n += 1
                gp = mentions(f.nodes[gst["cond"]])
                con = "signal-before-shortcut:%s" % ",".join(sorted(gp - early))
                if gp - early:
                    chk.refuted("D3", f.key, con, f.loc(st),
                                "%s returns early under '%s' before it has tested %s (%s): for such a call an out-of-domain %s is answered with an ordinary value instead of the error signal" % (
                                    name, render(f.nodes[st["cond"]])[:50], sorted(gp - early), render(f.nodes[gst["cond"]])[:60], sorted(gp - early)[0]),
                                witness={"input": "%s with %s making the early test true and %s out of its domain" % (name, sorted(early), sorted(gp - early))})
                else:
                    chk.proved("D3", f.key, con, f.loc(st), "the early return and the later guard test the same parameter(s)")
        if not any(s_["rule"] == "D3" and s_["function"] == f.key for s_ in chk.sites):
            n += 1
            chk.proved("D3", f.key, "signal-before-shortcut", f.loc(top[guards[0]]), "no ordinary early return precedes an error guard")
    chk.floor("D3", "signalling functions examined", n, 4)


def run(chk, fb, tier):
    chk.rule("D1", "the result of a sentinel-returning RandomTools function is returned unchanged, or held in a variable that is tested against the sentinel before any arithmetic on it")
    chk.rule("D2", "documented out-of-domain constants propagated through the entry statements of qNorm, qChisq, incompleteGamma, pGamma, incompleteBeta reach 'return <sentinel>' or throw")
    _d1(chk, fb)
    _d2(chk, fb)
    chk.rule("D3", "in the entry section of a signalling function no ordinary early return precedes a guard that signals on a different parameter")
    _d3(chk, fb)
    chk.assume("the sentinel of qNorm for the upper end (qNorm(1) = -9999, the lower-tail sentinel) is noted, not asserted")
