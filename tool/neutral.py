#!/usr/bin/env python3
"""Behaviour-preserving refactorings (written by independent sub-agents): the checks must stay silent on them.

  tool/neutral.py store <worktree> <PID>     copy <worktree>/_neutral/k/{patch.diff,meta.json} to /verif/neutral/<PID>-k after checking that the patch applies to /repo
  tool/neutral.py run [<PID>-k ...]          apply each to a scratch copy of /repo/src and run the checks of every property whose anchor files it touches (plus its own);
                                             prints SILENT / FALSE-ALARM (exit 1) / BROKEN (exit 2) per check and rewrites neutral/RESULTS.json
"""
import sys, os, subprocess, json, shutil, tempfile, re
from concurrent.futures import ThreadPoolExecutor
V = os.path.dirname(os.path.dirname(os.path.abspath(__file__)))
REPO = "/repo"


def sh(cmd, cwd=None, env=None):
    r = subprocess.run(cmd, shell=True, cwd=cwd, capture_output=True, text=True, env=env)
    return r.returncode, r.stdout + r.stderr


def store(wt, pid):
    nd = os.path.join(wt, "_neutral")
    for k in sorted(os.listdir(nd)):
        d = os.path.join(nd, k)
        pf = os.path.join(d, "patch.diff")
        if not os.path.exists(pf):
            continue
        rc, out = sh("git apply --check %s" % pf, cwd=REPO)
        if rc:
            print(pid, k, "REJECTED: does not apply to /repo:", out[-200:])
            continue
        dst = os.path.join(V, "neutral", "%s-%s" % (pid, k))
        os.makedirs(dst, exist_ok=True)
        shutil.copy(pf, dst)
        if os.path.exists(os.path.join(d, "meta.json")):
            shutil.copy(os.path.join(d, "meta.json"), dst)
        print(pid, k, "stored")


def claimed():
    return [c["property_id"] for c in json.load(open(os.path.join(V, "MANIFEST.json")))["checks"]]


def relevant(nid, patch):
    props = [json.loads(l) for l in open(os.path.join(V, "properties.jsonl"))]
    files = set(re.findall(r"^\+\+\+ b/(\S+)", open(patch).read(), re.M))
    own = nid.split("-")[0]
    out = [own]
    for p in props:
        if p["id"] in claimed() and p["id"] != own and files & set(p["anchors"]["files"]):
            out.append(p["id"])
    return [p for p in out if p in claimed()]


def run_one(nid):
    d = os.path.join(V, "neutral", nid)
    patch = os.path.join(d, "patch.diff")
    tmp = tempfile.mkdtemp(prefix="bppneu-")
    res = {}
    try:
        shutil.copytree(os.path.join(REPO, "src"), os.path.join(tmp, "src"))
        rc, out = sh("patch -p1 -s -i %s" % patch, cwd=tmp)
        if rc:
            return nid, {"_": "patch does not apply"}
        env = dict(os.environ, BPPVERIF_REPO=tmp, BPPVERIF_EVIDENCE=os.path.join(tmp, "evidence"))
        env.pop("BPPVERIF_REEXEC", None)
        for pid in relevant(nid, patch):
            rc, out = sh("%s %s --tier quick" % (os.path.join(V, "check"), pid), env=env)
            if rc == 0:
                res[pid] = "SILENT"
            elif rc == 1:
                res[pid] = "FALSE-ALARM: " + " | ".join(l.strip()[:260] for l in out.splitlines() if re.match(r"^  \S+ \S+:\d+ ", l))[:900]
            else:
                res[pid] = "BROKEN: " + " | ".join(l[:260] for l in out.splitlines() if l.startswith("ANALYSIS-BROKEN"))[:600]
        return nid, res
    finally:
        shutil.rmtree(tmp, ignore_errors=True)


def run(ids):
    nd = os.path.join(V, "neutral")
    ids = ids or sorted(x for x in os.listdir(nd) if os.path.isdir(os.path.join(nd, x)))
    rp = os.path.join(nd, "RESULTS.json")
    allres = json.load(open(rp)) if os.path.exists(rp) else {}
    with ThreadPoolExecutor(max_workers=int(os.environ.get('NEUTRAL_WORKERS', '3'))) as ex:
        for nid, res in ex.map(run_one, ids):
            allres[nid] = res
            for pid, r in res.items():
                print(nid, pid, r[:300])
    json.dump(allres, open(rp, "w"), indent=1, sort_keys=True)


if __name__ == "__main__":
    if sys.argv[1] == "store":
        store(sys.argv[2], sys.argv[3])
    else:
        run(sys.argv[2:])
