#!/bin/sh
# Runs bpp-core's own test suite from /repo's working tree with the verification guard OFF
# (no hook exists: the static checks parse the tree, nothing is instrumented).
set -e
B=$(mktemp -d /tmp/bpp-baseline-XXXXXX)
trap 'rm -rf "$B"' EXIT
cmake -G Ninja -S /repo -B "$B" -DCMAKE_BUILD_TYPE=RelWithDebInfo -DCMAKE_CXX_FLAGS=-Wno-error >"$B/configure.log" 2>&1
cmake --build "$B" -j16 >"$B/build.log" 2>&1 || { tail -40 "$B/build.log"; exit 1; }
ctest --test-dir "$B" -j8 --timeout 900
