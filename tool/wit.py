#!/usr/bin/env python3
"""Witness mutants: small realistic changes that break one decided clause; the checker must refute
each one, naming the mutated construct, in a scratch copy of /repo/src (never applied to /repo).

  tool/wit.py new <PID> <name> <file> <old> <new> --expect "<rule> <text that must appear in the report>"
  tool/wit.py run [PID ...]        -> exit 0 iff every witness is caught (exit 1 from the check, expected text present)
"""
import sys, os, subprocess, difflib, shutil, tempfile, json, re
V = os.path.dirname(os.path.dirname(os.path.abspath(__file__)))
REPO = "/repo"


def new(pid, name, path, old, newtxt, expect):
    src = open(os.path.join(REPO, path)).read()
    if src.count(old) != 1:
        sys.exit("old text occurs %d times in %s" % (src.count(old), path))
    mod = src.replace(old, newtxt)
    diff = "".join(difflib.unified_diff(src.splitlines(True), mod.splitlines(True), "a/" + path, "b/" + path, n=3))
    d = os.path.join(V, "witness", pid)
    os.makedirs(d, exist_ok=True)
    with open(os.path.join(d, name + ".patch"), "w") as f:
        f.write("# expect: %s\n" % expect)
        f.write(diff)
    print("written", os.path.join(d, name + ".patch"))


def sub(pid, name, path, pattern, repl, expect, occurrence=1):
    """regex variant: replace the k-th match of `pattern` (multiline) by `repl`"""
    src = open(os.path.join(REPO, path)).read()
    ms = list(re.finditer(pattern, src, re.M))
    if len(ms) < occurrence:
        sys.exit("pattern matches %d times in %s" % (len(ms), path))
    m = ms[occurrence - 1]
    mod = src[:m.start()] + m.expand(repl) + src[m.end():]
    diff = "".join(difflib.unified_diff(src.splitlines(True), mod.splitlines(True), "a/" + path, "b/" + path, n=3))
    d = os.path.join(V, "witness", pid)
    os.makedirs(d, exist_ok=True)
    with open(os.path.join(d, name + ".patch"), "w") as f:
        f.write("# expect: %s\n" % expect)
        f.write(diff)
    print("written", os.path.join(d, name + ".patch"))


def run_one(pid, patch):
    expect = open(patch).readline().strip()
    assert expect.startswith("# expect:")
    expect = expect[len("# expect:"):].strip()
    tmp = tempfile.mkdtemp(prefix="bppwit-")
    try:
        shutil.copytree(os.path.join(REPO, "src"), os.path.join(tmp, "src"))
        r = subprocess.run(["patch", "-p1", "-s", "-i", patch], cwd=tmp, capture_output=True, text=True)
        if r.returncode != 0:
            return False, "patch does not apply: " + r.stdout + r.stderr
        env = dict(os.environ, BPPVERIF_REPO=tmp, BPPVERIF_EVIDENCE=os.path.join(tmp, "evidence"))
        r = subprocess.run([os.path.join(V, "check"), pid, "--tier", "quick"], capture_output=True, text=True, env=env)
        out = r.stdout
        viol = [l for l in out.splitlines() if re.match(r"^  \S+ ", l) and "rule " not in l[:7]]
        if r.returncode != 1:
            return False, "exit %d (expected 1): %s" % (r.returncode, out[-600:])
        rule, _, text = expect.partition(" ")
        hit = [l for l in viol if l.strip().startswith(rule + " ") and text in l]
        if not hit:
            return False, "violation reported but not the expected construct (%s): %s" % (expect, "\n".join(viol)[:800])
        return True, hit[0].strip()[:200]
    finally:
        shutil.rmtree(tmp, ignore_errors=True)


def run(pids):
    from concurrent.futures import ThreadPoolExecutor
    wd = os.path.join(V, "witness")
    jobs = []
    for pid in sorted(os.listdir(wd)):
        if pids and pid not in pids:
            continue
        for p in sorted(os.listdir(os.path.join(wd, pid))):
            if p.endswith(".patch"):
                jobs.append((pid, os.path.join(wd, pid, p)))
    bad = 0
    with ThreadPoolExecutor(max_workers=4) as ex:
        for (pid, p), (ok, msg) in zip(jobs, ex.map(lambda j: run_one(*j), jobs)):
            print("%s %s %s: %s" % ("CAUGHT" if ok else "MISSED", pid, os.path.basename(p), msg))
            bad += (not ok)
    print("%d witnesses, %d missed" % (len(jobs), bad))
    return 1 if bad else 0


if __name__ == "__main__":
    if sys.argv[1] == "new":
        a = sys.argv[2:]
        i = a.index("--expect")
        new(a[0], a[1], a[2], a[3], a[4], a[i + 1])
    elif sys.argv[1] == "sub":
        a = sys.argv[2:]
        i = a.index("--expect")
        occ = int(a[a.index("--occ") + 1]) if "--occ" in a else 1
        sub(a[0], a[1], a[2], a[3], a[4], a[i + 1], occ)
    elif sys.argv[1] == "run":
        sys.exit(run(sys.argv[2:]))
