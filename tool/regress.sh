#!/bin/sh
# Full regression on a frozen copy of the machinery (so that rule modules can be edited meanwhile):
#   witnesses (all caught), neutral refactorings (all silent), seeds (detected ones stay detected).
# Results are copied back to /verif/{neutral,seeded}/RESULTS.json; logs in /tmp/regress-*.out. The copy is removed at the end.
SNAP=$(mktemp -d /tmp/verif-snap-XXXXXX)
rsync -a --exclude .git --exclude evidence /verif/ "$SNAP"/
mkdir -p "$SNAP/evidence"
cd "$SNAP" || exit 2
tool/wit.py run > /tmp/regress-wit.out 2>&1
tool/neutral.py run > /tmp/regress-neutral.out 2>&1
tool/seed.py detect $(ls seeded | grep -E "^C[0-9]+-[0-9]+$") > /tmp/regress-seed.out 2>&1
cp "$SNAP/neutral/RESULTS.json" /verif/neutral/RESULTS.json
cp "$SNAP/seeded/RESULTS.json" /verif/seeded/RESULTS.json
cd /
rm -rf "$SNAP"
echo "witness: $(tail -1 /tmp/regress-wit.out)"
echo "neutral: $(grep -c SILENT /tmp/regress-neutral.out) silent, $(grep -c 'FALSE-ALARM\|BROKEN' /tmp/regress-neutral.out) not"
echo "seeds: $(grep -c DETECTED /tmp/regress-seed.out) detected, $(grep -c MISSED /tmp/regress-seed.out) missed"
