#!/bin/sh
# runs every claimed check (quick tier by default) and prints one line per property
TIER=${1:-quick}
cd /verif
for p in $(python3 -c "import json;print(' '.join(c['property_id'] for c in json.load(open('MANIFEST.json'))['checks']))"); do
  ( ./check $p --tier $TIER > /tmp/runall.$p.out 2>&1; echo "$p exit=$? $(head -1 /tmp/runall.$p.out | cut -c1-110)" ) &
done
wait
