// bppx: libTooling fact extractor for the bpp-core static checks.
// For every function definition located under --root it writes one JSON record with the
// typed syntax tree (resolved callees, member/field identities, cast kinds) and clang's CFG.
// Usage: bppx --root=/repo/src --out=facts.json [--main-only] file.cpp -- <flags>
#include "clang/AST/ASTConsumer.h"
#include "clang/AST/ASTContext.h"
#include "clang/AST/DeclCXX.h"
#include "clang/AST/DeclTemplate.h"
#include "clang/AST/ExprCXX.h"
#include "clang/AST/RecursiveASTVisitor.h"
#include "clang/AST/StmtCXX.h"
#include "clang/Analysis/CFG.h"
#include "clang/Frontend/CompilerInstance.h"
#include "clang/Frontend/FrontendActions.h"
#include "clang/Tooling/CommonOptionsParser.h"
#include "clang/Tooling/Tooling.h"
#include "llvm/Support/CommandLine.h"
#include "llvm/Support/JSON.h"
#include "llvm/Support/raw_ostream.h"
#include <map>
#include <set>
#include <string>

using namespace clang;
using namespace clang::tooling;
namespace json = llvm::json;

static llvm::cl::OptionCategory Cat("bppx options");
static llvm::cl::opt<std::string> Root("root", llvm::cl::desc("source root"), llvm::cl::init("/repo/src"), llvm::cl::cat(Cat));
static llvm::cl::opt<std::string> Out("out", llvm::cl::desc("output json"), llvm::cl::init("-"), llvm::cl::cat(Cat));
static llvm::cl::opt<bool> MainOnly("main-only", llvm::cl::desc("emit only main-file definitions"), llvm::cl::cat(Cat));
static llvm::cl::opt<bool> ListTemplates("list-templates", llvm::cl::desc("list function templates / class template members"), llvm::cl::cat(Cat));

namespace {

struct Emitter {
  ASTContext &Ctx;
  SourceManager &SM;
  PrintingPolicy PP;
  json::OStream &J;
  std::map<const Decl *, int> declIds;
  std::map<const Stmt *, int> stmtIds;
  int nextStmt = 0;

  Emitter(ASTContext &C, json::OStream &J) : Ctx(C), SM(C.getSourceManager()), PP(C.getLangOpts()), J(J) {
    PP.SuppressTagKeyword = true;
    PP.Bool = true;
    PP.SuppressUnwrittenScope = true;
  }

  int declId(const Decl *D) {
    D = D->getCanonicalDecl();
    auto it = declIds.find(D);
    if (it != declIds.end()) return it->second;
    int id = (int)declIds.size() + 1;
    declIds[D] = id;
    return id;
  }

  std::string ty(QualType T) {
    if (T.isNull()) return "";
    if (T->isDependentType() || T->isInstantiationDependentType()) return T.getAsString(PP);
    return T.getCanonicalType().getAsString(PP);
  }

  std::string fileOf(SourceLocation L) {
    L = SM.getExpansionLoc(L);
    if (L.isInvalid()) return "";
    auto FE = SM.getFileEntryForID(SM.getFileID(L));
    if (!FE) return "";
    llvm::SmallString<256> P(FE->tryGetRealPathName());
    if (P.empty()) P = FE->getName();
    return std::string(P.str());
  }
  unsigned lineOf(SourceLocation L) { return SM.getExpansionLineNumber(L); }
  unsigned colOf(SourceLocation L) { return SM.getExpansionColumnNumber(L); }

  bool underRoot(SourceLocation L) {
    std::string f = fileOf(L);
    return !f.empty() && f.compare(0, Root.size(), Root) == 0;
  }

  std::string qname(const NamedDecl *D) {
    std::string s;
    llvm::raw_string_ostream os(s);
    D->printQualifiedName(os, PP);
    return os.str();
  }

  std::string clsName(const CXXRecordDecl *RD) {
    if (auto *SD = dyn_cast<ClassTemplateSpecializationDecl>(RD)) {
      if (!RD->isDependentContext()) {
        // canonical template arguments (an explicit instantiation would otherwise print them as written)
        std::string s;
        if (auto *P = dyn_cast<CXXRecordDecl>(RD->getDeclContext())) s = clsName(P) + "::" + RD->getNameAsString();
        else s = qname(RD);
        llvm::raw_string_ostream os(s);
        os << "<";
        auto &TA = SD->getTemplateArgs();
        for (unsigned i = 0; i < TA.size(); ++i) {
          if (i) os << ", ";
          if (TA[i].getKind() == TemplateArgument::Type) os << ty(TA[i].getAsType());
          else TA[i].print(PP, os, true);
        }
        os << ">";
        return os.str();
      }
    }
    return qname(RD);
  }

  std::string targs(const FunctionDecl *F) {
    std::string s;
    if (auto *TA = F->getTemplateSpecializationArgs()) {
      llvm::raw_string_ostream os(s);
      os << "<";
      for (unsigned i = 0; i < TA->size(); ++i) {
        if (i) os << ", ";
        TA->get(i).print(PP, os, true);
      }
      os << ">";
    }
    return s;
  }

  // identity of a function, stable across translation units
  std::string fnKey(const FunctionDecl *F) {
    std::string s = qname(F);
    s += targs(F);
    s += "(";
    for (unsigned i = 0; i < F->getNumParams(); ++i) {
      if (i) s += ", ";
      s += ty(F->getParamDecl(i)->getType());
    }
    if (F->isVariadic()) s += ", ...";
    s += ")";
    if (auto *M = dyn_cast<CXXMethodDecl>(F))
      if (M->isConst()) s += " const";
    return s;
  }

  void numberStmts(const Stmt *S) {
    if (!S) return;
    if (stmtIds.count(S)) return;
    stmtIds[S] = nextStmt++;
    if (auto *L = dyn_cast<LambdaExpr>(S)) {
      // children() of a lambda are its capture initialisers; body handled separately
      for (const Stmt *C : L->children()) numberStmts(C);
      return;
    }
    if (auto *DS = dyn_cast<DeclStmt>(S)) {
      for (const Decl *D : DS->decls())
        if (auto *VD = dyn_cast<VarDecl>(D))
          if (VD->hasInit()) numberStmts(VD->getInit());
      return;
    }
    for (const Stmt *C : S->children()) numberStmts(C);
  }

  int sid(const Stmt *S) {
    auto it = stmtIds.find(S);
    return it == stmtIds.end() ? -1 : it->second;
  }

  void emitCallee(const FunctionDecl *FD, const char *via) {
    J.attributeObject("callee", [&] {
      J.attribute("key", fnKey(FD));
      J.attribute("qname", qname(FD));
      J.attribute("name", FD->getNameAsString());
      J.attribute("via", via);
      if (auto *M = dyn_cast<CXXMethodDecl>(FD)) {
        J.attribute("virtual", M->isVirtual());
        J.attribute("const", M->isConst());
        J.attribute("static", M->isStatic());
        J.attribute("cls", clsName(M->getParent()));
      }
      J.attribute("ret", ty(FD->getReturnType()));
      J.attribute("inrepo", underRoot(FD->getLocation()));
      J.attributeArray("ptypes", [&] {
        for (unsigned i = 0; i < FD->getNumParams(); ++i) J.value(ty(FD->getParamDecl(i)->getType()));
      });
      J.attributeArray("pnames", [&] {
        for (unsigned i = 0; i < FD->getNumParams(); ++i) J.value(FD->getParamDecl(i)->getNameAsString());
      });
    });
  }

  void emitDeclRef(const ValueDecl *D) {
    J.attributeObject("decl", [&] {
      const char *kind = "other";
      if (isa<ParmVarDecl>(D)) kind = "param";
      else if (auto *VD = dyn_cast<VarDecl>(D)) {
        if (VD->isLocalVarDecl()) kind = VD->isStaticLocal() ? "staticlocal" : "local";
        else if (VD->isStaticDataMember()) kind = "staticmember";
        else kind = "global";
      } else if (isa<FieldDecl>(D)) kind = "field";
      else if (isa<EnumConstantDecl>(D)) kind = "enumconst";
      else if (isa<FunctionDecl>(D)) kind = "function";
      else if (isa<BindingDecl>(D)) kind = "binding";
      J.attribute("kind", kind);
      J.attribute("id", declId(D));
      J.attribute("name", D->getNameAsString());
      if (!isa<ParmVarDecl>(D) && !(isa<VarDecl>(D) && cast<VarDecl>(D)->isLocalVarDecl())) J.attribute("qname", qname(D));
      if (auto *FD = dyn_cast<FunctionDecl>(D)) J.attribute("key", fnKey(FD));
      if (auto *EC = dyn_cast<EnumConstantDecl>(D)) J.attribute("val", (int64_t)EC->getInitVal().getExtValue());
      J.attribute("ty", ty(D->getType()));
    });
  }

  void emitStmt(const Stmt *S) {
    if (!S) { J.value(nullptr); return; }
    J.object([&] {
      J.attribute("id", sid(S));
      J.attribute("k", S->getStmtClassName());
      J.attribute("l", lineOf(S->getBeginLoc()));
      J.attribute("c", colOf(S->getBeginLoc()));
      J.attribute("le", lineOf(S->getEndLoc()));
      if (auto *E = dyn_cast<Expr>(S)) {
        J.attribute("ty", ty(E->getType()));
        if (E->isLValue()) J.attribute("lv", true);
      }
      std::vector<const Stmt *> kids;
      bool kidsDone = false;

      if (auto *BO = dyn_cast<BinaryOperator>(S)) {
        J.attribute("op", BO->getOpcodeStr());
      } else if (auto *UO = dyn_cast<UnaryOperator>(S)) {
        J.attribute("op", UnaryOperator::getOpcodeStr(UO->getOpcode()));
        J.attribute("postfix", UO->isPostfix());
      } else if (auto *IL = dyn_cast<IntegerLiteral>(S)) {
        J.attribute("val", (int64_t)IL->getValue().getLimitedValue());
      } else if (auto *FL = dyn_cast<FloatingLiteral>(S)) {
        J.attribute("val", FL->getValueAsApproximateDouble());
      } else if (auto *BL = dyn_cast<CXXBoolLiteralExpr>(S)) {
        J.attribute("val", BL->getValue());
      } else if (auto *CL = dyn_cast<CharacterLiteral>(S)) {
        J.attribute("val", (int64_t)CL->getValue());
      } else if (auto *SL = dyn_cast<StringLiteral>(S)) {
        if (SL->getCharByteWidth() == 1) J.attribute("val", SL->getString());
      } else if (auto *DR = dyn_cast<DeclRefExpr>(S)) {
        emitDeclRef(DR->getDecl());
      } else if (auto *ME = dyn_cast<MemberExpr>(S)) {
        J.attributeObject("member", [&] {
          auto *MD = ME->getMemberDecl();
          J.attribute("name", MD->getNameAsString());
          J.attribute("qname", qname(MD));
          J.attribute("kind", isa<FieldDecl>(MD) ? "field" : (isa<CXXMethodDecl>(MD) ? "method" : "other"));
          J.attribute("arrow", ME->isArrow());
          const Expr *B = ME->getBase()->IgnoreParenImpCasts();
          J.attribute("this", isa<CXXThisExpr>(B));
          if (auto *FD = dyn_cast<FieldDecl>(MD)) J.attribute("mutable", FD->isMutable());
        });
      } else if (auto *CE = dyn_cast<CXXConstructExpr>(S)) {
        emitCallee(CE->getConstructor(), "ctor");
        J.attributeArray("args", [&] { for (auto *A : CE->arguments()) J.value(sid(A)); });
        if (isa<CXXTemporaryObjectExpr>(S)) J.attribute("temp", true);
        J.attribute("elidable", CE->isElidable());
      } else if (auto *Call = dyn_cast<CallExpr>(S)) {
        const FunctionDecl *FD = Call->getDirectCallee();
        const char *via = "free";
        const Expr *obj = nullptr;
        unsigned firstArg = 0;
        if (auto *MC = dyn_cast<CXXMemberCallExpr>(Call)) {
          via = "member";
          obj = MC->getImplicitObjectArgument();
        } else if (auto *OC = dyn_cast<CXXOperatorCallExpr>(Call)) {
          via = "operator";
          if (FD && isa<CXXMethodDecl>(FD) && !cast<CXXMethodDecl>(FD)->isStatic() && OC->getNumArgs() > 0) {
            obj = OC->getArg(0);
            firstArg = 1;
          }
          J.attribute("op", getOperatorSpelling(OC->getOperator()));
        }
        if (FD) emitCallee(FD, via);
        else J.attribute("unresolved", true);
        if (obj) J.attribute("obj", sid(obj));
        // qualified (non-virtual) member call: Base::f()
        if (auto *MC = dyn_cast<CXXMemberCallExpr>(Call))
          if (auto *ME = dyn_cast<MemberExpr>(MC->getCallee()->IgnoreParens()))
            if (ME->hasQualifier()) J.attribute("qualified", true);
        J.attributeArray("args", [&] {
          for (unsigned i = firstArg; i < Call->getNumArgs(); ++i) J.value(sid(Call->getArg(i)));
        });
      } else if (auto *CastE = dyn_cast<CastExpr>(S)) {
        J.attribute("cast", CastE->getCastKindName());
        if (auto *EC = dyn_cast<ExplicitCastExpr>(S)) J.attribute("toty", ty(EC->getTypeAsWritten()));
      } else if (auto *DS = dyn_cast<DeclStmt>(S)) {
        kidsDone = true;
        J.attributeArray("decls", [&] {
          for (const Decl *D : DS->decls()) {
            if (auto *VD = dyn_cast<VarDecl>(D)) {
              J.object([&] {
                J.attribute("id", declId(VD));
                J.attribute("name", VD->getNameAsString());
                J.attribute("ty", ty(VD->getType()));
                J.attribute("static", VD->isStaticLocal());
                if (VD->hasInit()) {
                  J.attribute("initstyle", (int)VD->getInitStyle());
                  J.attributeBegin("init");
                  emitStmt(VD->getInit());
                  J.attributeEnd();
                }
              });
            }
          }
        });
      } else if (auto *N = dyn_cast<CXXNewExpr>(S)) {
        J.attribute("newty", ty(N->getAllocatedType()));
        J.attribute("array", N->isArray());
      } else if (auto *D = dyn_cast<CXXDeleteExpr>(S)) {
        J.attribute("array", D->isArrayForm());
      } else if (auto *T = dyn_cast<CXXThrowExpr>(S)) {
        if (T->getSubExpr()) J.attribute("thrown", ty(T->getSubExpr()->getType()));
        else J.attribute("rethrow", true);
      } else if (auto *C = dyn_cast<CXXCatchStmt>(S)) {
        J.attribute("caught", C->getExceptionDecl() ? ty(C->getCaughtType()) : std::string("..."));
        if (C->getExceptionDecl()) J.attribute("var", declId(C->getExceptionDecl()));
      } else if (auto *If = dyn_cast<IfStmt>(S)) {
        J.attribute("cond", sid(If->getCond()));
        J.attribute("then", sid(If->getThen()));
        if (If->getElse()) J.attribute("else", sid(If->getElse()));
      } else if (auto *W = dyn_cast<WhileStmt>(S)) {
        J.attribute("cond", sid(W->getCond()));
        J.attribute("body", sid(W->getBody()));
      } else if (auto *Dd = dyn_cast<DoStmt>(S)) {
        J.attribute("cond", sid(Dd->getCond()));
        J.attribute("body", sid(Dd->getBody()));
      } else if (auto *F = dyn_cast<ForStmt>(S)) {
        if (F->getInit()) J.attribute("init", sid(F->getInit()));
        if (F->getCond()) J.attribute("cond", sid(F->getCond()));
        if (F->getInc()) J.attribute("inc", sid(F->getInc()));
        J.attribute("body", sid(F->getBody()));
      } else if (auto *FR = dyn_cast<CXXForRangeStmt>(S)) {
        J.attribute("rangeinit", sid(FR->getRangeInit()));
        J.attribute("body", sid(FR->getBody()));
        if (auto *LV = FR->getLoopVariable()) {
          J.attributeObject("loopvar", [&] {
            J.attribute("id", declId(LV));
            J.attribute("name", LV->getNameAsString());
            J.attribute("ty", ty(LV->getType()));
          });
        }
      } else if (auto *Sw = dyn_cast<SwitchStmt>(S)) {
        J.attribute("cond", sid(Sw->getCond()));
      } else if (auto *CO = dyn_cast<ConditionalOperator>(S)) {
        (void)CO;
      } else if (auto *L = dyn_cast<LambdaExpr>(S)) {
        if (L->getCallOperator()) J.attribute("lambda", fnKey(L->getCallOperator()));
      } else if (auto *UL = dyn_cast<UnresolvedLookupExpr>(S)) {
        J.attribute("name", UL->getName().getAsString());
      } else if (auto *UM = dyn_cast<UnresolvedMemberExpr>(S)) {
        J.attribute("name", UM->getMemberName().getAsString());
      } else if (auto *DM = dyn_cast<CXXDependentScopeMemberExpr>(S)) {
        J.attribute("name", DM->getMember().getAsString());
      } else if (auto *DD = dyn_cast<DependentScopeDeclRefExpr>(S)) {
        J.attribute("name", DD->getDeclName().getAsString());
      } else if (auto *UE = dyn_cast<UnaryExprOrTypeTraitExpr>(S)) {
        J.attribute("trait", (int)UE->getKind());
      } else if (auto *TE = dyn_cast<CXXTypeidExpr>(S)) {
        (void)TE;
      }
      if (!kidsDone) {
        J.attributeArray("kids", [&] {
          for (const Stmt *C : S->children())
            if (C) emitStmt(C);
        });
      }
    });
  }

  void emitCFG(const FunctionDecl *FD) {
    CFG::BuildOptions BO;
    BO.setAllAlwaysAdd();
    BO.AddInitializers = true;
    BO.AddImplicitDtors = false;
    BO.AddEHEdges = false;
    BO.AddTemporaryDtors = false;
    BO.PruneTriviallyFalseEdges = false;
    std::unique_ptr<CFG> G = CFG::buildCFG(FD, FD->getBody(), &Ctx, BO);
    if (!G) return;
    J.attributeObject("cfg", [&] {
      J.attribute("entry", (int)G->getEntry().getBlockID());
      J.attribute("exit", (int)G->getExit().getBlockID());
      J.attributeArray("blocks", [&] {
        for (const CFGBlock *B : *G) {
          J.object([&] {
            J.attribute("id", (int)B->getBlockID());
            J.attributeArray("el", [&] {
              for (const CFGElement &E : *B) {
                if (auto SE = E.getAs<CFGStmt>()) {
                  J.value(sid(SE->getStmt()));
                } else if (auto IE = E.getAs<CFGInitializer>()) {
                  // encode initialiser as negative index -(k+1) into "inits"
                  int k = 0, found = -1;
                  if (auto *CD = dyn_cast<CXXConstructorDecl>(FD))
                    for (auto *I : CD->inits()) { if (I == IE->getInitializer()) found = k; ++k; }
                  J.value(-(found + 1) - 1000000);
                }
              }
            });
            if (const Stmt *T = B->getTerminatorStmt()) {
              J.attribute("term", sid(T));
              J.attribute("termk", T->getStmtClassName());
            }
            if (const Stmt *TC = B->getTerminatorCondition()) J.attribute("termcond", sid(TC));
            if (const Stmt *L = B->getLabel()) {
              J.attribute("label", sid(L));
              J.attribute("labelk", L->getStmtClassName());
            }
            if (const Stmt *LT = B->getLoopTarget()) J.attribute("looptarget", sid(LT));
            if (B->hasNoReturnElement()) J.attribute("noreturn", true);
            J.attributeArray("succ", [&] {
              for (auto I = B->succ_begin(); I != B->succ_end(); ++I) {
                const CFGBlock *Sx = I->getReachableBlock();
                if (!Sx) Sx = I->getPossiblyUnreachableBlock();
                if (Sx) J.value((int)Sx->getBlockID());
                else J.value(nullptr);
              }
            });
          });
        }
      });
    });
  }

  void emitFunction(const FunctionDecl *FD) {
    stmtIds.clear();
    nextStmt = 0;
    const Stmt *Body = FD->getBody();
    if (auto *CD = dyn_cast<CXXConstructorDecl>(FD))
      for (auto *I : CD->inits()) numberStmts(I->getInit());
    numberStmts(Body);
    bool dependent = FD->isDependentContext();
    J.object([&] {
      J.attribute("key", fnKey(FD));
      J.attribute("qname", qname(FD));
      J.attribute("name", FD->getNameAsString());
      J.attribute("file", fileOf(FD->getLocation()));
      J.attribute("line", lineOf(FD->getBeginLoc()));
      J.attribute("line_end", lineOf(FD->getEndLoc()));
      J.attribute("main", SM.isInMainFile(SM.getExpansionLoc(FD->getLocation())));
      J.attribute("ret", ty(FD->getReturnType()));
      J.attribute("dependent", dependent);
      if (FD->isTemplateInstantiation()) {
        J.attribute("inst", true);
        if (auto *P = FD->getTemplateInstantiationPattern()) J.attribute("pattern", fnKey(P));
      }
      std::string ta = targs(FD);
      if (!ta.empty()) J.attribute("targs", ta);
      J.attributeArray("params", [&] {
        for (unsigned i = 0; i < FD->getNumParams(); ++i) {
          auto *P = FD->getParamDecl(i);
          J.object([&] {
            J.attribute("id", declId(P));
            J.attribute("name", P->getNameAsString());
            J.attribute("ty", ty(P->getType()));
            J.attribute("hasdefault", P->hasDefaultArg());
          });
        }
      });
      if (auto *M = dyn_cast<CXXMethodDecl>(FD)) {
        J.attribute("cls", clsName(M->getParent()));
        J.attribute("access", (int)M->getAccess());
        J.attribute("virtual", M->isVirtual());
        J.attribute("const", M->isConst());
        J.attribute("static", M->isStatic());
        J.attributeArray("overrides", [&] {
          for (auto *O : M->overridden_methods()) J.value(fnKey(O));
        });
        if (auto *CD = dyn_cast<CXXConstructorDecl>(FD)) {
          J.attribute("ctor", true);
          J.attribute("copyctor", CD->isCopyConstructor());
          J.attributeArray("inits", [&] {
            for (auto *I : CD->inits()) {
              J.object([&] {
                if (I->isMemberInitializer()) {
                  J.attribute("field", qname(I->getMember()));
                  J.attribute("fname", I->getMember()->getNameAsString());
                } else if (I->isBaseInitializer()) {
                  J.attribute("base", ty(QualType(I->getBaseClass(), 0)));
                } else if (I->isDelegatingInitializer()) {
                  J.attribute("delegating", true);
                }
                J.attribute("written", I->isWritten());
                J.attributeBegin("expr");
                emitStmt(I->getInit());
                J.attributeEnd();
              });
            }
          });
        }
        if (isa<CXXDestructorDecl>(FD)) J.attribute("dtor", true);
        if (M->isCopyAssignmentOperator()) J.attribute("copyassign", true);
      }
      J.attributeBegin("body");
      emitStmt(Body);
      J.attributeEnd();
      if (!dependent) emitCFG(FD);
    });
  }

  void emitClass(const CXXRecordDecl *RD) {
    J.object([&] {
      J.attribute("qname", clsName(RD));
      SourceLocation CL = RD->getLocation();
      if (auto *SD = dyn_cast<ClassTemplateSpecializationDecl>(RD)) CL = SD->getSpecializedTemplate()->getLocation();
      J.attribute("file", fileOf(CL));
      J.attribute("line", lineOf(CL));
      J.attribute("dependent", RD->isDependentContext());
      J.attribute("abstract", RD->isAbstract());
      J.attributeArray("bases", [&] {
        for (auto &B : RD->bases()) {
          J.object([&] {
            J.attribute("ty", ty(B.getType()));
            J.attribute("virtual", B.isVirtual());
            J.attribute("access", (int)B.getAccessSpecifier());
          });
        }
      });
      J.attributeArray("fields", [&] {
        for (auto *F : RD->fields()) {
          J.object([&] {
            J.attribute("name", F->getNameAsString());
            J.attribute("qname", qname(F));
            J.attribute("ty", ty(F->getType()));
            J.attribute("access", (int)F->getAccess());
            J.attribute("mutable", F->isMutable());
          });
        }
      });
      J.attributeArray("methods", [&] {
        for (auto *M : RD->methods()) {
          if (M->isImplicit()) continue;
          J.object([&] {
            J.attribute("key", fnKey(M));
            J.attribute("name", M->getNameAsString());
            J.attribute("virtual", M->isVirtual());
            J.attribute("pure", M->isPure());
            J.attribute("access", (int)M->getAccess());
            J.attribute("const", M->isConst());
            J.attribute("static", M->isStatic());
            J.attribute("defined", M->isDefined());
            J.attribute("line", lineOf(M->getLocation()));
            J.attributeArray("overrides", [&] {
              for (auto *O : M->overridden_methods()) J.value(fnKey(O));
            });
          });
        }
      });
    });
  }
};

class Visitor : public RecursiveASTVisitor<Visitor> {
public:
  Emitter &E;
  std::vector<const FunctionDecl *> fns;
  std::vector<const CXXRecordDecl *> classes;
  std::set<const Decl *> seen;
  explicit Visitor(Emitter &E) : E(E) {}
  bool shouldVisitTemplateInstantiations() const { return true; }
  bool shouldVisitImplicitCode() const { return false; }

  bool VisitFunctionDecl(FunctionDecl *FD) {
    if (!FD->doesThisDeclarationHaveABody()) return true;
    if (FD->isDefaulted() || FD->isDeleted()) return true;
    if (!E.underRoot(FD->getLocation())) return true;
    // library units: main-file definitions plus the template instantiations they trigger (header-defined)
    if (MainOnly && !E.SM.isInMainFile(E.SM.getExpansionLoc(FD->getLocation())) && !FD->isTemplateInstantiation()) return true;
    if (!seen.insert(FD).second) return true;
    fns.push_back(FD);
    return true;
  }
  bool VisitCXXRecordDecl(CXXRecordDecl *RD) {
    if (!RD->isThisDeclarationADefinition()) return true;
    if (RD->isLambda()) return true;
    SourceLocation L = RD->getLocation();
    if (auto *SD = dyn_cast<ClassTemplateSpecializationDecl>(RD)) L = SD->getSpecializedTemplate()->getLocation();
    if (!E.underRoot(L)) return true;
    if (!seen.insert(RD).second) return true;
    classes.push_back(RD);
    return true;
  }
};

class Consumer : public ASTConsumer {
public:
  void HandleTranslationUnit(ASTContext &Ctx) override {
    std::error_code EC;
    std::unique_ptr<llvm::raw_fd_ostream> file;
    llvm::raw_ostream *os = &llvm::outs();
    if (Out != "-") {
      file = std::make_unique<llvm::raw_fd_ostream>(Out, EC);
      if (EC) { llvm::errs() << "cannot open " << Out << "\n"; exit(3); }
      os = file.get();
    }
    json::OStream J(*os);
    Emitter E(Ctx, J);
    Visitor V(E);
    V.TraverseDecl(Ctx.getTranslationUnitDecl());
    auto &Diags = Ctx.getDiagnostics();
    J.object([&] {
      J.attribute("errors", (int)Diags.getClient()->getNumErrors());
      J.attribute("root", std::string(Root));
      if (ListTemplates) {
        J.attributeArray("templates", [&] {
          for (auto *FD : V.fns) {
            if (!FD->isDependentContext()) continue;
            J.object([&] {
              J.attribute("key", E.fnKey(FD));
              J.attribute("qname", E.qname(FD));
              J.attribute("file", E.fileOf(FD->getLocation()));
              J.attribute("line", E.lineOf(FD->getLocation()));
              J.attribute("ret", FD->getReturnType().getAsString(E.PP));
              J.attribute("static", isa<CXXMethodDecl>(FD) && cast<CXXMethodDecl>(FD)->isStatic());
              J.attribute("is_method", isa<CXXMethodDecl>(FD));
              if (auto *M = dyn_cast<CXXMethodDecl>(FD)) {
                J.attribute("cls", E.clsName(M->getParent()));
                J.attribute("access", (int)M->getAccess());
                J.attribute("cls_is_template", M->getParent()->isDependentContext());
                J.attribute("const", M->isConst());
              }
              J.attribute("ctor", isa<CXXConstructorDecl>(FD));
              J.attribute("dtor", isa<CXXDestructorDecl>(FD));
              J.attributeArray("tparams", [&] {
                if (auto *FT = FD->getDescribedFunctionTemplate())
                  for (auto *P : *FT->getTemplateParameters()) J.value(P->getNameAsString());
              });
              J.attributeArray("ptypes", [&] {
                for (unsigned i = 0; i < FD->getNumParams(); ++i)
                  J.value(FD->getParamDecl(i)->getType().getAsString(E.PP));
              });
            });
          }
        });
      } else {
        J.attributeArray("classes", [&] { for (auto *RD : V.classes) E.emitClass(RD); });
        J.attributeArray("functions", [&] { for (auto *FD : V.fns) E.emitFunction(FD); });
      }
    });
    os->flush();
  }
};

class Action : public ASTFrontendAction {
public:
  std::unique_ptr<ASTConsumer> CreateASTConsumer(CompilerInstance &CI, StringRef) override {
    return std::make_unique<Consumer>();
  }
};

} // namespace

int main(int argc, const char **argv) {
  auto Exp = CommonOptionsParser::create(argc, argv, Cat);
  if (!Exp) { llvm::errs() << Exp.takeError(); return 3; }
  ClangTool Tool(Exp->getCompilations(), Exp->getSourcePathList());
  return Tool.run(newFrontendActionFactory<Action>().get());
}
