#!/usr/bin/env python3
"""Regenerates /verif/MANIFEST.json from bppverif/registry.py and validates it."""
import json, os, sys
sys.path.insert(0, os.path.dirname(os.path.dirname(os.path.abspath(__file__))))
from bppverif import registry

V = os.path.dirname(os.path.dirname(os.path.abspath(__file__)))
props = [json.loads(l) for l in open(os.path.join(V, "properties.jsonl"))]
checks = []
na = []
for p in props:
    pid = p["id"]
    r = registry.CLAIMED.get(pid)
    if r is None:
        na.append({"property_id": pid, "reason": registry.NOT_APPLICABLE.get(pid, "check not built yet (framework under construction); see DESIGN.md section 5")})
        continue
    checks.append({
        "property_id": pid,
        "quick_cmd": "./check %s --tier quick" % pid,
        "thorough_cmd": "./check %s --tier thorough" % pid,
        "evidence_file": "/verif/evidence/%s.json" % pid,
        "replay_cmd_template": "./check %s --replay {path}" % pid,
        "engine": r["engine"],
        "level_claimed": {"category": "other", "text": r["level"], "design_ref": "DESIGN.md section 5, " + pid},
        "level_note": r["note"],
        "technique": r["technique"],
    })
m = {
    "version": 1,
    "setup_cmd": "make -C /verif/tool",
    "hooks": {"guard": "BIOPP_BPP_CORE_VERIF", "enable": "none needed: the analysis parses /repo's working tree; no source hook exists",
              "baseline_off_cmd": "/verif/tool/baseline_off.sh", "source_commits": [], "add_only": True},
    "engines": registry.ENGINES,
    "checks": checks,
    "notes": registry.NOTES,
    "not_applicable": na,
}
json.dump(m, open(os.path.join(V, "MANIFEST.json"), "w"), indent=1)
try:
    import jsonschema
    jsonschema.validate(m, json.load(open("/root/.vp/MANIFEST.schema.json")))
    print("MANIFEST.json valid: %d checks, %d not applicable" % (len(checks), len(na)))
except ImportError:
    print("written (jsonschema not importable here; run with python3-vt to validate)")
