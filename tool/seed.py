#!/usr/bin/env python3
"""Seeded-defect bookkeeping (changes written by independent sub-agents; never committed to /repo).

  tool/seed.py confirm <worktree> <PID>     re-verify every <worktree>/_seed/k myself: with the patch the library builds, ctest passes
                                            20/20 and demo exits non-zero; without it demo exits 0. Confirmed seeds are copied to
                                            /verif/seeded/<PID>-k/ (patch.diff, demo.cpp, meta.json incl. what I ran).
  tool/seed.py detect [<PID>-k ...]         apply each kept seed to a scratch copy of /repo/src and run the property's quick check;
                                            prints DETECTED (exit 1 + VIOLATION) / MISSED per seed and rewrites seeded/RESULTS.json
"""
import sys, os, subprocess, json, shutil, tempfile, re
V = os.path.dirname(os.path.dirname(os.path.abspath(__file__)))


def sh(cmd, cwd=None, timeout=3600):
    r = subprocess.run(cmd, shell=True, cwd=cwd, capture_output=True, text=True, timeout=timeout)
    return r.returncode, (r.stdout + r.stderr)


def build_and_test(wt):
    b = os.path.join(wt, "_b")
    if not os.path.exists(os.path.join(b, "build.ninja")):
        rc, out = sh("cmake -G Ninja -S %s -B %s -DCMAKE_BUILD_TYPE=RelWithDebInfo -DCMAKE_CXX_FLAGS=-Wno-error" % (wt, b))
        if rc:
            return False, "configure failed", None
    rc, out = sh("cmake --build %s -j16" % b)
    if rc:
        return False, "build failed: " + out[-500:], None
    rc, out = sh("ctest --test-dir %s -j8 --timeout 900" % b)
    m = re.search(r"(\d+)% tests passed, (\d+) tests failed out of (\d+)", out)
    return True, out[-300:], (int(m.group(3)) - int(m.group(2)), int(m.group(3))) if m else None


def demo(wt, d):
    exe = os.path.join(d, "demo.bin")
    rc, out = sh("g++ -std=c++14 -I%s/src %s/demo.cpp -L%s/_b/src -lbpp-core3 -Wl,-rpath,%s/_b/src -o %s" % (wt, d, wt, wt, exe))
    if rc:
        return None, "demo does not compile: " + out[-500:]
    try:
        rc, out = sh("timeout 60 " + exe)
    except Exception as e:
        rc, out = 124, str(e)
    os.unlink(exe)
    return rc, out[-400:]


def confirm(wt, pid):
    sd = os.path.join(wt, "_seed")
    for k in sorted(os.listdir(sd)):
        d = os.path.join(sd, k)
        if not os.path.exists(os.path.join(d, "patch.diff")):
            continue
        sh("git checkout -- src", cwd=wt)
        res = {"seed": "%s-%s" % (pid, k)}
        rc, out = sh("git apply --check %s/patch.diff && git apply %s/patch.diff" % (d, d), cwd=wt)
        if rc:
            print(pid, k, "REJECTED: patch does not apply", out[-200:])
            continue
        ok, msg, tests = build_and_test(wt)
        res["with_change"] = {"builds": ok, "ctest_passed_of": tests}
        if not ok or not tests or tests[0] != tests[1]:
            print(pid, k, "REJECTED: with change build/test:", msg[-300:])
            sh("git checkout -- src", cwd=wt)
            continue
        rc_with, out_with = demo(wt, d)
        res["with_change"]["demo_exit"] = rc_with
        res["with_change"]["demo_output"] = out_with
        sh("git checkout -- src", cwd=wt)
        ok, msg, tests = build_and_test(wt)
        rc_without, out_without = demo(wt, d)
        res["without_change"] = {"builds": ok, "ctest_passed_of": tests, "demo_exit": rc_without}
        good = rc_with not in (0, None) and rc_without == 0
        print(pid, k, "CONFIRMED" if good else "REJECTED", "demo exit with/without = %s/%s" % (rc_with, rc_without))
        if good:
            dst = os.path.join(V, "seeded", "%s-%s" % (pid, k))
            os.makedirs(dst, exist_ok=True)
            shutil.copy(os.path.join(d, "patch.diff"), dst)
            shutil.copy(os.path.join(d, "demo.cpp"), dst)
            meta = json.load(open(os.path.join(d, "meta.json")))
            meta["property"] = pid
            meta["confirmed_by_me"] = res
            meta["what_i_ran"] = ("scratch worktree of /repo at its HEAD: git apply patch.diff; cmake --build; ctest -j8 (all passed); g++ demo.cpp against the built library -> non-zero exit; "
                                  "git checkout -- src; rebuild; same demo -> exit 0")
            json.dump(meta, open(os.path.join(dst, "meta.json"), "w"), indent=1)


def detect(names):
    sdir = os.path.join(V, "seeded")
    names = names or sorted(n for n in os.listdir(sdir) if os.path.isdir(os.path.join(sdir, n)))
    resf = os.path.join(sdir, "RESULTS.json")
    results = json.load(open(resf)) if os.path.exists(resf) else {}

    def one(name):
        pid = name.split("-")[0]
        tmp = tempfile.mkdtemp(prefix="bppseed-")
        try:
            shutil.copytree("/repo/src", os.path.join(tmp, "src"))
            rc, out = sh("patch -p1 -s -i %s" % os.path.join(sdir, name, "patch.diff"), cwd=tmp)
            if rc:
                return name, "PATCH-FAILED", out[-200:]
            env = "BPPVERIF_REPO=%s BPPVERIF_EVIDENCE=%s/evidence" % (tmp, tmp)
            rc, out = sh("%s %s/check %s --tier quick" % (env, V, pid))
            lines = [l.strip() for l in out.splitlines() if re.match(r"^  \S+ \S+:\d+ ", l)]
            if rc == 1 and "VIOLATION property=%s" % pid in out:
                return name, "DETECTED", lines[:3]
            if rc == 2:
                return name, "ANALYSIS-BROKEN", [l for l in out.splitlines() if "BROKEN" in l][:2]
            # silent on its own property: the other properties anchored in the touched files (a change to ParameterList.cpp written
            # against C01 also concerns C02)
            files = set(re.findall(r"^\+\+\+ b/(\S+)", open(os.path.join(sdir, name, "patch.diff")).read(), re.M))
            claimed = [c["property_id"] for c in json.load(open(os.path.join(V, "MANIFEST.json")))["checks"]]
            for pr in [json.loads(l) for l in open(os.path.join(V, "properties.jsonl"))]:
                if pr["id"] != pid and pr["id"] in claimed and files & set(pr["anchors"]["files"]):
                    rc, out = sh("%s %s/check %s --tier quick" % (env, V, pr["id"]))
                    lines = [l.strip() for l in out.splitlines() if re.match(r"^  \S+ \S+:\d+ ", l)]
                    if rc == 1 and "VIOLATION property=%s" % pr["id"] in out:
                        return name, "DETECTED", ["(by the check of %s) " % pr["id"] + l for l in lines[:3]]
            return name, "MISSED", []
        finally:
            shutil.rmtree(tmp, ignore_errors=True)
    from concurrent.futures import ThreadPoolExecutor
    with ThreadPoolExecutor(max_workers=3) as ex:
        for name, verdict, info in ex.map(one, names):
            print(name, verdict, json.dumps(info)[:400])
            results[name] = {"verdict": verdict, "report": info}
    json.dump(results, open(resf, "w"), indent=1, sort_keys=True)


if __name__ == "__main__":
    if sys.argv[1] == "confirm":
        confirm(sys.argv[2], sys.argv[3])
    elif sys.argv[1] == "detect":
        detect(sys.argv[2:])
