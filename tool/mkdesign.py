#!/usr/bin/env python3
"""Regenerates the machine-written tables of DESIGN.md (between the AUTO markers) from the rule modules' evidence files,
known_findings.json, seeded/RESULTS.json and the witness directory. Narrative text outside the markers is hand-written."""
import json, os, re, glob
V = os.path.dirname(os.path.dirname(os.path.abspath(__file__)))
out = []
props = [json.loads(l) for l in open(os.path.join(V, "properties.jsonl"))]
man = json.load(open(os.path.join(V, "MANIFEST.json")))
claimed = {c["property_id"]: c for c in man["checks"]}
res = json.load(open(os.path.join(V, "seeded", "RESULTS.json")))
kf = json.load(open(os.path.join(V, "known_findings.json")))

out.append("### 11.2 Rules per property, with the instance counts of the last run on the unchanged tree\n")
out.append("| id | rule | what it decides | proved | refuted (known) | unknown |")
out.append("|---|---|---|---|---|---|")
for p in props:
    pid = p["id"]
    evp = os.path.join(V, "evidence", pid + ".json")
    if pid not in claimed or not os.path.exists(evp):
        continue
    ev = json.load(open(evp))
    rules = dict(r.split(": ", 1) for r in ev["coverage"]["rule"].split("; D") and re.split(r"; (?=D\d)", ev["coverage"]["rule"]))
    for rid, c in sorted(ev["coverage"]["per_rule"].items()):
        out.append("| %s | %s | %s | %d | %d | %d |" % (pid, rid, rules.get(rid, "").replace("|", "/")[:400], c["PROVED"], c["REFUTED"], c["UNKNOWN"]))
out.append("")

out.append("### 11.3 Genuine defects found by the checks on the pinned tree\n")
out.append("Each was first replayed against the built library (failing input in the entry), then repaired by one unguarded `fix:` commit in /repo (suite 20/20 after each); the check is silent on the repaired tree and a witness mutant that re-introduces the defect is refuted.\n")
out.append("| property | commit | what failed (rule that reported it) |")
out.append("|---|---|---|")
for f in kf["fixed"]:
    m = re.match(r"fixed: property=(\S+) (\S+) (.*)", f)
    if m:
        out.append("| %s | %s | %s |" % (m.group(1), m.group(2), m.group(3).replace("|", "/")))
    else:
        m = re.match(r"fixed: property=(\S+) (.*)", f)
        out.append("| %s | | %s |" % (m.group(1), m.group(2).replace("|", "/")))
out.append("")
out.append("Recorded, not repaired (`known_findings.json`, matched by property + rule + function + construct, never by line):\n")
out.append("| property | rule | function | construct | what fails |")
out.append("|---|---|---|---|---|")
for k in kf["findings"]:
    out.append("| %s | %s | %s | `%s` | %s |" % (k["property"], k["rule"], k["function"].split("(")[0], k["construct"], k["what"].replace("|", "/")))
out.append("")

out.append("### 11.5 Seeded changes (written by independent sub-agents from the property text only) and witness mutants\n")
out.append("| seed | what was changed | verdict of the property's check | reporting rule |")
out.append("|---|---|---|---|")
for d in sorted(glob.glob(os.path.join(V, "seeded", "C*-*"))):
    sid = os.path.basename(d)
    try:
        m = json.load(open(os.path.join(d, "meta.json")))
    except Exception:
        continue
    r = res.get(sid, {})
    rep = str(r.get("report", ""))
    mm = re.search(r"['\"](D\w+|ANALYSIS-BROKEN)[ :]", rep)
    out.append("| %s | %s | %s | %s |" % (sid, (m.get("summary") or "")[:260].replace("|", "/").replace("\n", " "), r.get("verdict", "not run (property not applicable)" if sid.startswith("C06") else "not run"), mm.group(1) if mm else ""))
out.append("")
# neutral refactorings
nres_p = os.path.join(V, "neutral", "RESULTS.json")
if os.path.exists(nres_p):
    nres = json.load(open(nres_p))
    out.append("Behaviour-preserving refactorings (written by independent sub-agents, each verified by them to build and pass the suite; stored under `neutral/`). Every check whose anchor files a refactoring touches is run on it; the required answer is silence (exit 0):\n")
    out.append("| refactoring | what was rewritten | checks run | result |")
    out.append("|---|---|---|---|")
    for nid in sorted(nres):
        try:
            m = json.load(open(os.path.join(V, "neutral", nid, "meta.json")))
        except Exception:
            m = {}
        r = nres[nid]
        bad = {k: v for k, v in r.items() if v != "SILENT"}
        out.append("| %s | %s | %s | %s |" % (nid, (m.get("summary") or "")[:220].replace("|", "/").replace("\n", " "), " ".join(sorted(r)), "silent" if not bad else "; ".join("%s: %s" % (k, v[:80]) for k, v in bad.items())))
    out.append("")

out.append("Witness mutants (my own, one or more per rule; applied by the thorough tier to a scratch copy, each must be refuted naming the construct):\n")
out.append("| property | witnesses |")
out.append("|---|---|")
for d in sorted(glob.glob(os.path.join(V, "witness", "C*"))):
    ws = []
    for p_ in sorted(glob.glob(os.path.join(d, "*.patch"))):
        exp = open(p_).readline().replace("# expect:", "").strip()
        ws.append("%s (%s)" % (os.path.basename(p_)[:-6], exp))
    out.append("| %s | %s |" % (os.path.basename(d), "; ".join(ws)))
out.append("")

txt = open(os.path.join(V, "DESIGN.md")).read()
a, b = "<!-- AUTO:BEGIN -->", "<!-- AUTO:END -->"
if a in txt and b in txt:
    txt = txt[:txt.index(a) + len(a)] + "\n" + "\n".join(out) + "\n" + txt[txt.index(b):]
    open(os.path.join(V, "DESIGN.md"), "w").write(txt)
    print("DESIGN.md tables regenerated (%d lines)" % len(out))
else:
    print("markers not found")
